#!/usr/bin/env python3
"""Regenerate /verif/MANIFEST.json from kani/<ID>/spec.py metadata and not_applicable.json."""
import importlib.util, json, os, sys
V = os.path.dirname(os.path.dirname(os.path.abspath(__file__)))
sys.path.insert(0, os.path.join(V, "lib"))
props = [json.loads(l)["id"] for l in open(os.path.join(V, "properties.jsonl"))]
na = json.load(open(os.path.join(V, "not_applicable.json")))
checks = []
for p in props:
    sp = os.path.join(V, "kani", p, "spec.py")
    if not os.path.exists(sp):
        assert p in na, p + " neither claimed nor listed not applicable"
        continue
    assert p not in na, p
    s = importlib.util.spec_from_file_location("spec_" + p, sp)
    m = importlib.util.module_from_spec(s); s.loader.exec_module(m)
    M = m.MANIFEST
    checks.append({
        "property_id": p,
        "quick_cmd": "bin/check %s --tier quick" % p,
        "thorough_cmd": "bin/check %s --tier thorough" % p,
        "evidence_file": "/verif/evidence/%s.json" % p,
        "replay_cmd_template": "bin/check %s --replay {path}" % p,
        "engine": "kani-cbmc",
        "level_claimed": {"category": "model_checking", "text": M["text"], "design_ref": M["design_ref"]},
        "level_note": M["note"],
        "technique": M["technique"],
    })
hooks_commits = [l.strip() for l in open(os.path.join(V, "hooks_commits.txt")) if l.strip()]
man = {
    "version": 1,
    "setup_cmd": "bin/setup",
    "hooks": {
        "guard": "cfg(kani) (set only by Kani's compiler) and cfg(sudachi_verif) (set only by /verif's native generator via RUSTFLAGS)",
        "enable": "cargo kani -p sudachi|sudachi-cli with SUDACHI_VERIF_DIR=<scratch dir holding the generated harness text>; each hooked module ends with `#[cfg(any(kani, sudachi_verif))] include!(concat!(env!(\"SUDACHI_VERIF_DIR\"), \"/<module>.rs\"));`",
        "baseline_off_cmd": "cd /repo && cargo nextest run --workspace --no-fail-fast --tool-config-file pb:/w/lib/nextest.toml --profile pb --test-threads 8 --offline || (cd /repo && cargo test --workspace --no-fail-fast --offline)",
        "source_commits": hooks_commits,
        "add_only": True,
    },
    "engines": [{
        "name": "kani-cbmc", "path": "/verif/lib/runner.py",
        "serves_properties": [c["property_id"] for c in checks],
        "kind_free_text": "Kani 0.68.0 compiles /repo's current working tree (MIR) to goto programs; CBMC 6.11.0 symbolically executes each #[kani::proof] harness with unwinding assertions and cadical decides every assertion/cover for all inputs within the stated bounds; counterexamples are replayed natively with `cargo kani playback` before being reported.",
    }],
    "checks": checks,
    "not_applicable": [{"property_id": k, "reason": v} for k, v in na.items()],
    "notes": "Exit codes of every check: 0 = held within the bounds (KNOWN-FINDING lines possible), 1 = VIOLATION replayed natively, 2 = inconclusive (timeout, memory cap, unwinding bound, vacuous harness, non-reproducing counterexample). Bounds, assumptions, stubs and what lies outside each claim are in the evidence files and DESIGN.md.",
}
json.dump(man, open(os.path.join(V, "MANIFEST.json"), "w"), indent=1)
print("MANIFEST.json: %d checks, %d not applicable" % (len(checks), len(na)))
