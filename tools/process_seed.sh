#!/bin/sh
# process_seed.sh <worktree> <seed-id> <PROP>: confirm a sub-agent's seeded change in its scratch worktree, store it under seeded/<seed-id>, run the quick check on a private copy
w=$1; id=$2; p=$3
d=/verif/seeded/$id
mkdir -p $d
tools/confirm_seed.sh $w > $d/confirm.log 2>&1
cp $w/SEED/patch.diff $d/ && for f in seed_demo.rs demo.diff agent_meta.json demo_instructions.txt; do [ -f $w/SEED/$f ] && cp $w/SEED/$f $d/; done
cat $d/confirm.log
[ -d /verif/kani/$p ] && tools/try_seed_copy.sh seeded/$id $p quick
