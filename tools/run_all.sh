#!/bin/sh
# run every claimed check (tier $1, default quick), $2 streams in parallel; summary to stdout
tier=${1:-quick}; par=${2:-2}
cd "$(dirname "$0")/.."
props=$(python3 -c "import json;print(' '.join(c['property_id'] for c in json.load(open('MANIFEST.json'))['checks']))")
mkdir -p /var/tmp/sudachi-verif-logs
echo $props | tr ' ' '\n' | xargs -P $par -I{} sh -c "bin/check {} --tier $tier > /var/tmp/sudachi-verif-logs/{}.$tier.log 2>&1; echo {} exit \$?"
grep -h "^== .* exit\|^KNOWN-FINDING\|^VIOLATION\|INCONCLUSIVE" /var/tmp/sudachi-verif-logs/*.$tier.log
