#!/bin/sh
# confirm_seed.sh <worktree>  : demo fails with the change, passes without, suite passes with the change
w=$1
cd $w || exit 2
export CARGO_TARGET_DIR=$w/target CARGO_NET_OFFLINE=true
pkg=sudachi; [ -f sudachi-cli/tests/seed_demo.rs ] && pkg=sudachi-cli
echo "--- demo WITH change (expect failure)"
cargo test -p $pkg --test seed_demo --offline 2>&1 | grep -E "^test result|error\[|could not compile" | head -3
git apply -R SEED/patch.diff || exit 3
echo "--- demo WITHOUT change (expect ok)"
cargo test -p $pkg --test seed_demo --offline 2>&1 | grep -E "^test result|error\[|could not compile" | head -3
git apply SEED/patch.diff || exit 4
echo "--- existing suite WITH change"
mv $pkg/tests/seed_demo.rs /tmp/seed_demo_$$.rs
cargo test --workspace --no-fail-fast --offline 2>&1 | grep -E "^test result" | awk '{p+=$4; f+=$6} END {print "passed",p,"failed",f}'
mv /tmp/seed_demo_$$.rs $pkg/tests/seed_demo.rs
