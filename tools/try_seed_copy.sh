#!/bin/sh
# try_seed_copy.sh <seed dir> <PROP> [tier]: like try_seed.sh but on a private copy of /repo (can run in parallel, never touches /repo)
d=$(realpath $1); p=$2; t=${3:-quick}
c=/var/tmp/repo-copy-$$
mkdir -p $c && (cd /repo && git archive HEAD | tar -x -C $c) || exit 9
(cd $c && git init -q . && git apply "$d/patch.diff") || { rm -rf $c; exit 8; }
cd /verif
VERIF_REPO=$c VERIF_OUT=/var/tmp/sudachi-verif-seed-out-$$ VERIF_SCRATCH=/var/tmp/sudachi-verif-seed-$$ bin/check $p --tier $t > "$d/check_$p.$t.log" 2>&1
rc=$?
rm -rf $c /var/tmp/sudachi-verif-seed-$$ /var/tmp/sudachi-verif-seed-out-$$
echo "$1 $p $t exit=$rc"; grep -h "^VIOLATION\|^KNOWN\|INCONCLUSIVE\|^== " "$d/check_$p.$t.log" | head -8
exit $rc
