#!/bin/sh
# try_seed.sh <seed dir> <PROP> [tier]: apply the seeded change to /repo, run the check, undo it
d=$1; p=$2; t=${3:-quick}
git -C /repo status --short | grep -q . && { echo "/repo not clean"; exit 9; }
git -C /repo apply "$(realpath $d)/patch.diff" || exit 8
VERIF_OUT=/var/tmp/sudachi-verif-seed-out VERIF_SCRATCH=/var/tmp/sudachi-verif-seed bin/check $p --tier $t > "$d/check_$p.$t.log" 2>&1
rc=$?
git -C /repo checkout -- .
echo "$d $p $t exit=$rc"; grep -h "^VIOLATION\|^KNOWN\|INCONCLUSIVE\|^== " "$d/check_$p.$t.log" | head -8
exit $rc
