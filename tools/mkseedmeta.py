#!/usr/bin/env python3
"""Write seeded/<id>/meta.json from the sub-agent's notes, the confirmation log and the check logs; TABLE holds my reading of the result."""
import glob, json, os, re, sys
V = os.path.dirname(os.path.dirname(os.path.abspath(__file__)))
RFILE = sys.argv[1] if len(sys.argv) > 1 else "round2.json"
ROUND = int(re.search(r"(\d+)", RFILE).group(1))
TABLE = json.load(open(os.path.join(V, "seeded", RFILE)))
for sid, t in TABLE.items():
    d = os.path.join(V, "seeded", sid)
    am = json.load(open(os.path.join(d, "agent_meta.json")))
    conf = open(os.path.join(d, "confirm.log")).read()
    res = re.findall(r"test result: (\w+)\. (\d+) passed; (\d+) failed", conf)
    suite = re.search(r"passed (\d+) failed (\d+)", conf)
    logs = {}
    for f in sorted(glob.glob(os.path.join(d, "check_*.log"))):
        logs[os.path.basename(f)] = [l.rstrip()[:220] for l in open(f) if re.match(r"^(VIOLATION|KNOWN|== |   INCONCLUSIVE)", l)]
    meta = {
        "id": sid, "property": t["property"], "round": ROUND, "summary": t["summary"], "needs_to_manifest": t["needs"],
        "agent_meta": am,
        "confirmed": {
            "demo_fails_with_change": bool(res) and res[0][0] == "FAILED",
            "demo_passes_without": len(res) > 1 and res[1][0] == "ok",
            "existing_suite_with_change": ("%s passed, %s failed" % suite.groups()) if suite else "?",
            "how": "tools/confirm_seed.sh in the sub-agent's scratch worktree (removed afterwards): demo with the change, demo after git apply -R, full workspace suite with the change",
        },
        "check_result": {"command": "tools/try_seed_copy.sh seeded/%s %s quick" % (sid, t.get("check", t["property"])), "caught": t["caught"], "caught_by": t["caught_by"],
                         "note": t.get("note", ""), "log_lines": logs},
    }
    json.dump(meta, open(os.path.join(d, "meta.json"), "w"), indent=1, ensure_ascii=False)
    print(sid, meta["confirmed"]["demo_fails_with_change"], meta["confirmed"]["demo_passes_without"], meta["confirmed"]["existing_suite_with_change"], t["caught"])
