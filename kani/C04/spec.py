"""C04 — dictionary lookup returns exactly the entries that prefix-match the text (DESIGN §4 C04)."""
import os
from runner import Harness

ROW = "%s,%d,%d,100,%s,名詞,*,*,*,*,*,ヨミ,%s,*,A,*,*,*,*\n"

# key-set family: name -> [(surface, left_id)]; left_id < 0 = declared non-indexed
SETS = {
    "shared_prefixes": [("a", 0), ("ab", 0), ("abc", 1), ("abd", 0), ("b", 0), ("bc", 1), ("a", -1), ("bd", -1)],
    "multibyte": [("あ", 0), ("あい", 0), ("あb", 1), ("𠮷", 0), ("𠮷a", 0), ("é", 0), ("い", -1)],
    "homographs": [("x", 0), ("x", 1), ("xy", 0), ("x", 0), ("y", 0), ("xy", 1), ("x", -1), ("xz", -1), ("z", 0)],
    "chain": [("k", 0), ("kk", 0), ("kkk", 0), ("kkkk", 0), ("kkkkk", 0), ("\x7f", 0), ("k\x7f", 1)],
}
# three layered lexicons for LexiconSet::lookup (system, user 1, user 2): overlapping keys, homographs, a key only a user dictionary has,
# a non-indexed row; the harness is generated from the same CSV rows
LAYERS = {
    "layer_sys": [("a", 0), ("ab", 0), ("b", 1), ("a", -1), ("abc", 0)],
    "layer_u1": [("a", 0), ("bc", 0), ("b", -1)],
    "layer_u2": [("ab", 0), ("ab", 1), ("c", 0), ("a", -1)],
}
THOROUGH_SETS = {
    "homographs127": [("h", 0)] * 127 + [("hi", 0)] * 3 + [("h", -1), ("i", 0)],
    "table_offset_gt_255": [("w%02d" % i, 0) for i in range(60)] + [("w", 0), ("w0", 0)],
    "mixed_depth": [("ab", 0), ("abcd", 0), ("abcdef", 0), ("b", 0), ("bcdef", 0), ("cdef", 1), ("f", 0)],
    "high_bytes": [("ÿ", 0), ("Ā", 0), ("߿", 0), ("￿", 0), ("\U0010ffff", 0), ("\u0080", 1)],
}


def sets_for(ctx):
    s = dict(SETS)
    if ctx.tier == "thorough":
        s.update(THOROUGH_SETS)
    s.update(LAYERS)
    return s


_cache = {}


def compiled(ctx):
    if "c" in _cache:
        return _cache["c"]
    d = os.path.join(ctx.scratch, "c04")
    os.makedirs(d, exist_ok=True)
    m = os.path.join(d, "matrix.def")
    open(m, "w").write("2 2\n0 0 0\n0 1 0\n1 0 0\n1 1 0\n")
    paths = []
    sets = sets_for(ctx)
    for name, rows in sets.items():
        p = os.path.join(d, name + ".csv")
        with open(p, "w", encoding="utf-8") as f:
            for s, l in rows:
                f.write(ROW % (s, l, max(l, 0), s, s))
        paths.append(p)
    # key sets selected for their double-array LAYOUT: the generator searches random key sets for one where some node N
    # (reached by a key prefix) and a byte b that is not a child of N have a value (leaf) unit in slot N.base ^ b whose low
    # byte equals b - the layouts in which a walk that mishandles the leaf flag of a unit goes wrong
    found = ctx.run_gen(["c04search", m, d, str(7 + ctx.seed), "400"])
    for k, line in enumerate(found.splitlines()):
        csv, path, b = line.split("\t")
        name = "layout_value_unit_adjacent_%d" % k
        rows = []
        for r in open(csv, encoding="utf-8"):
            c = r.rstrip("\n").split(",")
            rows.append((c[0], int(c[1])))
        sets[name] = rows
        p2 = os.path.join(d, name + ".csv")
        os.replace(csv, p2)
        paths.append(p2)
        if ctx.tier == "quick" and k == 0:
            break
    out = ctx.run_gen(["c04", m] + paths)
    res = {}
    for line in out.splitlines():
        cols = line.split("\t")
        name = os.path.basename(cols[0])[:-4]
        if cols[1] != "OK":
            raise RuntimeError("key set %s did not compile: %s" % (name, cols[2]))
        rows = sets[name]
        assert int(cols[2]) == len(rows)
        units = [int(x) for x in cols[3].split(",")]
        table = [int(x) for x in cols[4].split(",")]
        # independent reading of the CSV: key -> row numbers of the indexed rows with that surface
        keys = {}
        for i, (s, l) in enumerate(rows):
            if l >= 0:
                keys.setdefault(s.encode("utf-8"), []).append(i)
        res[name] = (units, table, keys)
    _cache["c"] = res
    return res


def params(ctx):
    L = []
    for name, (units, table, keys) in compiled(ctx).items():
        if name in LAYERS:
            continue
        u = name.upper()
        ks = sorted(keys)
        L.append("    // key set %s: %d indexed keys, %d double-array units, %d table bytes (built by the current /repo DictBuilder)" % (
            name, len(ks), len(units), len(table)))
        L.append("    static U_%s: [u32; %d] = [%s];" % (u, len(units), ",".join(map(str, units))))
        L.append("    static T_%s: [u8; %d] = [%s];" % (u, len(table), ",".join(map(str, table))))
        L.append("    static K_%s: [&[u8]; %d] = [%s];" % (u, len(ks), ", ".join("&[%s]" % ",".join(map(str, k)) for k in ks)))
        L.append("    static I_%s: [&[u32]; %d] = [%s];" % (u, len(ks), ", ".join("&[%s]" % ",".join(map(str, keys[k])) for k in ks)))
        maxids = max(len(v) for v in keys.values())
        unw = max(len(ks), maxids, 8) + 3
        L.append("""    //@H c04_lookup_%s
    #[kani::proof]
    #[kani::unwind(%d)]
    fn c04_lookup_%s() {
        check_lookup(&U_%s, &T_%s, &K_%s, &I_%s, %s);
    }
    //@END
""" % (name, unw, name, u, u, u, u, "true" if maxids > 1 else "false"))
    return {"GENERATED": "\n".join(L), "LEN": 5 if ctx.tier == "quick" else 6, "GENERATED_SET": set_harness(ctx), "SETLEN": SETLEN[ctx.tier], "STAMPLEN": 2 if ctx.tier == "quick" else 3}


SETLEN = {"quick": 1, "thorough": 1}
# quick: system + one user dictionary, 1-byte texts (the nested flat_map adapters are expensive: three lexicons x 2-byte texts did not finish in 1500 s)
SETLAYERS = {"quick": ["layer_sys", "layer_u1"], "thorough": ["layer_sys", "layer_u1"]}


def _maxe(c, order, n):
    """most entries one text of <= n bytes can have: per lexicon the ids of a chain of keys; bounded by all ids of keys that fit"""
    return sum(len(v) for name in order for k, v in c[name][2].items() if len(k) <= n) + 1


def _expected(c, order, dics, stamp):
    """straight-line expectation: user dictionaries first; inside one lexicon by increasing key length; ids in row order"""
    L = []
    for d in dics:
        units, table, keys = c[order[d]]
        for k in sorted(keys, key=lambda k: (len(k), k)):
            L.append("        if is_prefix_at(&[%s], text, off) {" % ",".join(map(str, k)))
            for wid in keys[k]:
                L.append("            assert!(n < MAXE && got[n] == Some(LexiconEntry::new(WordId::new(%s, %d), off + %d)), \"lexicon %d, key %s, row %d\");" % (
                    stamp(d), wid, len(k), d, k.decode("utf-8"), wid))
                L.append("            n += 1;")
            L.append("            from_%s = true;" % ("sys" if d == 0 else "user"))
            L.append("        }")
    return L


def set_harness(ctx):
    """LexiconSet::lookup over the three LAYERS lexicons, Lexicon::lookup with a symbolic dictionary number: the expected sequence is written out from the CSV rows."""
    c = compiled(ctx)
    L = []
    order = SETLAYERS[ctx.tier]
    for name in ["layer_sys", "layer_u1", "layer_u2"]:
        units, table, keys = c[name]
        u = name.upper()
        L.append("    static U_%s: [u32; %d] = [%s];" % (u, len(units), ",".join(map(str, units))))
        L.append("    static T_%s: [u8; %d] = [%s];" % (u, len(table), ",".join(map(str, table))))
    head = """        let buf: [u8; LEN] = kani::any();
        let len: usize = kani::any();
        kani::assume(len <= LEN);
        let off: usize = kani::any();
        kani::assume(off <= len);
        let text = &buf[..len];
        const MAXE: usize = %d;
        let mut got: [Option<LexiconEntry>; MAXE] = Default::default();
        let mut cnt = 0usize;
        {
            let mut it = %s;
            for i in 0..MAXE {
                match it.next() {
                    Some(e) => {
                        got[i] = Some(e);
                        cnt += 1;
                    }
                    None => break,
                }
            }
            assert!(cnt < MAXE, "no more entries than keys can match");
            std::mem::forget(it);
        }
        let mut n = 0usize;
        let mut from_user = false;
        let mut from_sys = false;"""
    tail = """        assert!(n == cnt, "nothing but the indexed keys that prefix the text at the offset");
        kani::cover!(n >= %d, "several entries");
        kani::cover!(n == 0 && len > off, "non-empty text matching nothing");
        kani::cover!(n >= 1 && off > 0, "match at a non-zero offset");"""
    me = _maxe(c, order, SETLEN[ctx.tier])
    L.append("""    //@H c04_set_lookup
    #[kani::proof]
    #[kani::unwind(%d)]
    fn c04_set_lookup() {
        let mut set = LexiconSet::new(Lexicon::verif_from_index(&U_LAYER_SYS, &T_LAYER_SYS), 0);
        let r1 = set.append(Lexicon::verif_from_index(&U_LAYER_U1, &T_LAYER_U1), 0);
        let r2 = %s;
        assert!(r1.is_ok() && r2.is_ok());""" % (max(me + 1, SETLEN[ctx.tier] + 2, len(order) + 2),
                                                 "set.append(Lexicon::verif_from_index(&U_LAYER_U2, &T_LAYER_U2), 0)" if len(order) == 3 else "Ok::<(), LexiconSetError>(())"))
    L.append(head % (me, "set.lookup(text, off)"))
    L += _expected(c, order, tuple(range(len(order) - 1, -1, -1)), lambda d: str(d))
    L.append(tail % 2)
    L.append("""        kani::cover!(from_user && from_sys, "entries from a user dictionary and from the system dictionary");
        std::mem::forget(set);
        std::mem::forget(r1);
        std::mem::forget(r2);
    }
    //@END
""")
    L.append("""    //@H c04_lexicon_lookup_stamp
    #[kani::proof]
    #[kani::unwind(%d)]
    fn c04_lexicon_lookup_stamp() {
        let mut lex = Lexicon::verif_from_index(&U_LAYER_U2, &T_LAYER_U2);
        let d: u8 = kani::any();
        kani::assume(d < 15);
        lex.set_dic_id(d);""" % 7)
    L.append(head.replace("LEN", "LEN_STAMP") % (_maxe(c, ["layer_u2"], 3), "lex.lookup(text, off)"))
    L += _expected(c, ["layer_sys", "layer_u1", "layer_u2"], (2,), lambda d: "d")
    L.append(tail % 2)
    L.append("""        kani::cover!(d == 14 && from_user, "entries stamped with dictionary 14");
        let _ = from_sys;
        std::mem::forget(lex);
    }
    //@END
""")
    return "\n".join(L)


def harnesses(ctx):
    hs = []
    n = 5 if ctx.tier == "quick" else 6
    hs.append(Harness(
        "c04_set_lookup", "dic__lexicon_set",
        ["LexiconSet::new", "LexiconSet::append", "Lexicon::set_dic_id", "LexiconSet::lookup", "Lexicon::lookup", "Lexicon::word_id", "WordId::new",
         "Trie::common_prefix_iterator", "TrieEntryIter::next", "WordIdTable::entries", "WordIdIter::next",
         "DictBuilder (run natively per lexicon; output is the harness constant)"],
        "every byte string of <= %d bytes x every offset against a stack of %d lexicons (system + user dictionaries, %s)" % (
            SETLEN[ctx.tier], len(SETLAYERS[ctx.tier]), "; ".join("%s: %s" % (n, ",".join(s if l >= 0 else "(" + s + ")" for s, l in LAYERS[n])) for n in SETLAYERS[ctx.tier])),
        kernel="C04-d all layered lexicons consulted, user dictionaries first, entries stamped with the number of their lexicon",
        assumptions=["the key sets are fixed (the builder runs concretely per set)"],
        shape={"layers": {n: [s for s, l in LAYERS[n] if l >= 0] for n in SETLAYERS[ctx.tier]}}, required=False, tiers=("thorough",), fs_array=True,
        timeout_s=1500 if ctx.tier == "quick" else 3000, mem_gb=16 if ctx.tier == "quick" else 30,
        outside=["other stacks (4..15 dictionaries), other key sets, texts longer than %d bytes" % SETLEN[ctx.tier]], rust_mod="verif_c04_set"))
    hs.append(Harness(
        "c04_lexicon_lookup_stamp", "dic__lexicon_set",
        ["Lexicon::lookup", "Lexicon::set_dic_id", "Lexicon::word_id", "WordId::new", "Trie::common_prefix_iterator", "TrieEntryIter::next", "WordIdTable::entries", "WordIdIter::next"],
        "every byte string of <= %d bytes x every offset x every dictionary number 0..14, one lexicon (%s)" % (2 if ctx.tier == "quick" else 3, ",".join(s if l >= 0 else "(" + s + ")" for s, l in LAYERS["layer_u2"])),
        kernel="C04-d every entry of a lexicon is stamped with that lexicon's dictionary number",
        shape={"keys": [s for s, l in LAYERS["layer_u2"] if l >= 0]}, timeout_s=1500, mem_gb=16, fs_array=True, rust_mod="verif_c04_set"))
    for name, (units, table, keys) in compiled(ctx).items():
        if name in LAYERS:
            continue
        hs.append(Harness(
            "c04_lookup_" + name, "dic__lexicon__trie",
            ["Trie::common_prefix_iterator", "TrieEntryIter::next", "TrieEntryIter::get", "Trie::{label,offset,has_leaf,value}",
             "WordIdTable::entries", "WordIdIter::next",
             "DictBuilder::{read_conn,read_lexicon,resolve,compile} -> IndexBuilder::{add,build_word_id_table,build_trie}, should_index (run natively; output is the harness constant)"],
            "every byte string of <= %d bytes (superset of UTF-8) x every offset, against key set %s (%d keys, %d units)" % (n, name, len(keys), len(units)),
            kernel="C04-a trie walk + word-id table vs. linear scan of the CSV keys",
            assumptions=["the key set is one of the enumerated family (the builder runs concretely per set)"],
            shape={"key_set": name, "keys": [k.decode("utf-8", "replace") for k in sorted(keys)]},
            timeout_s=1500 if ctx.tier == "quick" else 3000, mem_gb=12 if ctx.tier == "quick" else 30,
            outside=["key sets outside the family", "texts longer than %d bytes" % n]))
    return hs


OUTSIDE = ["key sets outside the enumerated family; texts longer than the bound; 3..15 layered dictionaries",
           "MorphemeList::lookup's exact-match filter (one comparison on top of this kernel)"]
EXPLANATION = "Real trie/table readers over tables built by the real builder, all texts within the bound, oracle = naive scan of the CSV."
MANIFEST = dict(
    design_ref="DESIGN.md §4 C04",
    technique="bounded model checking (Kani/CBMC/cadical) of the trie walk and word-id table reader over builder-produced tables; all byte strings up to the bound; oracle = linear scan of the CSV keys",
    text=("For each key set of a stated family (shared prefixes, keys that are prefixes of keys, multi-byte and astral keys, homographs, non-indexed rows; "
          "thorough adds 127 homographs, table offsets above 255, deeper keys) the dictionary is compiled by the repository's DictBuilder and the solver proves for "
          "EVERY byte string up to the bound and every offset that the entries reported by common_prefix_iterator + WordIdTable are exactly the indexed keys "
          "prefixing the text there: sound, complete, each once, increasing ends, with exactly the CSV row numbers as word numbers; non-indexed rows never appear. "
          "Every unchecked read (get_unchecked, raw pointer reads) is also checked in bounds by CBMC. On top: Lexicon::lookup stamps every entry with its lexicon's dictionary number (all numbers 0..14), "
          "and LexiconSet::lookup over a stack of three builder-produced lexicons reports exactly the matching indexed keys of all three, user dictionaries first, each stamped with the position of its lexicon (texts up to 2 / 3 bytes)."),
    note=("Key sets are enumerated, not symbolic; texts bounded to 5 (quick) / 6 (thorough) bytes. Trusted: Kani/CBMC/cadical; the generator's location of the "
          "trie/table inside the compiled dictionary (public loader API + documented layout); the CSV reading in spec.py."),
)
