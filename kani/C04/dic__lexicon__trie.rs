// C04 — dictionary lookup = exact prefix match: trie walk + word-id table vs. a linear scan of the CSV keys.
#[cfg(kani)]
mod verif_c04 {
    use super::*;
    use crate::dic::lexicon::word_id_table::WordIdTable;

    const LEN: usize = /*@LEN@*/5;

    fn is_prefix_at(key: &[u8], text: &[u8], off: usize) -> bool {
        if off + key.len() > text.len() {
            return false;
        }
        let mut i = 0;
        while i < key.len() {
            if text[off + i] != key[i] {
                return false;
            }
            i += 1;
        }
        true
    }

    /// All texts of <= LEN bytes (any bytes, a superset of UTF-8) x all offsets against one compiled key set.
    fn check_lookup(units: &[u32], table: &'static [u8], keys: &[&[u8]], ids: &[&[u32]], has_multi: bool) {
        let trie = Trie::new_owned(units.to_vec());
        let wit = WordIdTable::new(table, table.len() as u32, 0);
        let buf: [u8; LEN] = kani::any();
        let len: usize = kani::any();
        kani::assume(len <= LEN);
        let off: usize = kani::any();
        kani::assume(off <= len);
        let text = &buf[..len];
        //@KF F-C04-1: buf[0] == 0 || buf[1] == 0 || buf[2] == 0 || buf[3] == 0 || buf[LEN - 1] == 0

        let mut it = trie.common_prefix_iterator(text, off);
        let mut found = 0usize;
        let mut last_end = off;
        let mut multi = false;
        for _ in 0..LEN + 1 {
            let e = match it.next() {
                Some(e) => e,
                None => break,
            };
            assert!(e.end > last_end && e.end <= len, "entries come in increasing end order inside the text");
            // soundness: the reported span is a key
            let mut ki = usize::MAX;
            for k in 0..keys.len() {
                if keys[k].len() == e.end - off && is_prefix_at(keys[k], text, off) {
                    ki = k;
                }
            }
            assert!(ki != usize::MAX, "every reported entry is an indexed key that prefixes the text at the offset");
            // the ids behind the entry are exactly the CSV rows of that key, each once, in row order
            assert!((e.value as usize) < table.len());
            let mut wi = wit.entries(e.value as usize);
            let want = ids[ki];
            for j in 0..want.len() {
                let got = wi.next();
                assert!(got == Some(want[j]), "word numbers of the key are its CSV row numbers");
            }
            assert!(wi.next().is_none(), "no further word numbers for the key");
            if want.len() > 1 {
                multi = true;
            }
            last_end = e.end;
            found += 1;
        }
        assert!(it.next().is_none());
        // completeness
        let mut expect = 0usize;
        for k in 0..keys.len() {
            if is_prefix_at(keys[k], text, off) {
                expect += 1;
            }
        }
        assert!(found == expect, "every indexed key that prefixes the text is reported exactly once");
        kani::cover!(found >= 2, "text matching at least two keys");
        kani::cover!(found == 0 && len > off, "non-empty text matching nothing");
        kani::cover!(found >= 1 && off > 0, "match at a non-zero offset");
        kani::cover!(multi || !has_multi, "key with several word numbers (if the set has one)");
        std::mem::forget(trie);
    }

/*@GENERATED@*/
}
