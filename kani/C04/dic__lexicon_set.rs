// C04 (d) - all layered lexicons are consulted, user dictionaries first, each entry stamped with the number of the
// lexicon it came from: LexiconSet::lookup -> Lexicon::lookup -> trie walk + word-id table, over three builder-produced indexes.
#[cfg(kani)]
mod verif_c04_set {
    use super::*;

    const LEN: usize = /*@SETLEN@*/1;
    const LEN_STAMP: usize = /*@STAMPLEN@*/2;

    fn is_prefix_at(key: &[u8], text: &[u8], off: usize) -> bool {
        if off + key.len() > text.len() {
            return false;
        }
        let mut i = 0;
        while i < key.len() {
            if text[off + i] != key[i] {
                return false;
            }
            i += 1;
        }
        true
    }

/*@GENERATED_SET@*/
}
