"""C20 — out-of-range plugin parameters are rejected when the dictionary is loaded (DESIGN §4 C20)."""
from runner import Harness

ANY_DIM = "matrix dimensions: any pair 0..=32767 (everything a dictionary header can declare)"


def params(ctx):
    return {"NL": 3, "NR": 2, "UNW": 10} if ctx.tier == "quick" else {"NL": 5, "NR": 4, "UNW": 24}


def harnesses(ctx):
    q = ctx.tier == "quick"
    dims = "3x2" if q else "5x4"
    hs = []
    for n, f in (("c20_check_left_id", "check_left_id"), ("c20_check_right_id", "check_right_id"), ("c20_check_cost", "check_cost")):
        hs.append(Harness(n, "util__check_params", ["<Grammar as CheckParams>::%s::<i64>" % f, "ConnectionMatrix::num_left/num_right"],
                          "every i64 value x " + ANY_DIM,
                          kernel="C20-a range checks for JSON-provided ids and costs (SimpleOov/RegexOov settings)",
                          stubs=["alloc::fmt::format -> empty string (error-message construction)"],
                          assumptions=["instantiation T = i64 (what the OOV plugins pass)"], timeout_s=600, mem_gb=8))
    hs.append(Harness("c20_inhibit_pair", "plugin__connect_cost__inhibit_connection",
                      ["InhibitConnectionPlugin::check_pairs (called by set_up)", "InhibitConnectionPlugin::edit",
                       "Grammar::set_connect_cost", "ConnectionMatrix::update", "ConnectionMatrix::cost", "CowArray::set"],
                      "every (i16, i16) pair against a %s matrix of arbitrary cells" % dims,
                      kernel="C20-b inhibited pairs: rejected when out of range, otherwise exactly one cell edited",
                      stubs=["alloc::fmt::format -> empty string"], fs_array=True, timeout_s=900, mem_gb=10,
                      outside=["JSON deserialisation of the pair list", "matrices other than " + dims]))
    return hs


OUTSIDE = ["POS present/absent x userPOS allow/forbid (string comparisons over Vec<Vec<String>>)", "JSON deserialisation",
           "the unk.def line parser of the MeCab OOV plugin (HashMap + text parsing; same comparison pattern)"]
EXPLANATION = "Range checks decided for every i64 and every matrix dimension; inhibited pairs for every i16 pair on a small matrix."
MANIFEST = dict(
    design_ref="DESIGN.md §4 C20",
    technique="bounded model checking (Kani/CBMC/cadical): symbolic i64 ids/costs and symbolic matrix dimensions against check_left_id/check_right_id/check_cost; symbolic i16 pairs through the inhibit-connection plugin",
    text=("The solver decides, for every i64 and every matrix dimension 0..=32767, that check_left_id / check_right_id / check_cost accept exactly the values that "
          "index an existing row/column (fit i16) and return them unchanged; and for every (i16,i16) pair that the inhibit-connection plugin either rejects it at "
          "set-up or edits exactly that matrix cell (no panic, no other cell). Boundary values n-1, n, n+1, -1, 65536, 32767/32768 are reached by cover witnesses."),
    note=("fmt::format is stubbed on error paths. The unk.def parser and POS handling are outside. Trusted: Kani/CBMC/cadical."),
)
