// C20 — range checks of JSON-provided ids and costs (instantiation: T = i64, what the OOV plugins pass).
#[cfg(kani)]
mod verif_c20 {
    use super::*;
    use crate::dic::connect::ConnectionMatrix;

    pub(crate) fn stub_format(_a: std::fmt::Arguments<'_>) -> String {
        String::new()
    }

    /// A grammar whose matrix has ANY dimensions a dictionary header can declare (i16 >= 0).
    fn any_grammar() -> (Grammar<'static>, usize, usize) {
        let nl: usize = kani::any();
        let nr: usize = kani::any();
        kani::assume(nl <= 32767 && nr <= 32767);
        let g = Grammar::verif_with_matrix(ConnectionMatrix::verif_from_vec(Vec::new(), nl, nr));
        (g, nl, nr)
    }

    //@H c20_check_left_id
    #[kani::proof]
    #[kani::stub(alloc::fmt::format, stub_format)]
    fn c20_check_left_id() {
        let (g, nl, _nr) = any_grammar();
        let raw: i64 = kani::any();
        //@KF F-C20-1: raw == nl as i64
        let r = g.check_left_id(raw);
        let in_range = raw >= 0 && raw < nl as i64;
        match &r {
            Ok(v) => {
                assert!(in_range, "an accepted left id indexes an existing row/column of the matrix");
                assert!(*v as i64 == raw, "the accepted id is returned unchanged");
            }
            Err(_) => assert!(!in_range, "in-range ids are accepted"),
        }
        kani::cover!(r.is_ok() && raw == nl as i64 - 1, "largest valid id");
        kani::cover!(r.is_err() && raw == nl as i64 + 1, "n+1 rejected");
        kani::cover!(r.is_err() && raw == -1, "-1 rejected");
        kani::cover!(r.is_err() && raw == 65536, "65536 rejected (would wrap to 0 as u16)");
        kani::cover!(r.is_err() && nl == 0, "empty matrix accepts nothing");
        std::mem::forget(r);
        std::mem::forget(g);
    }
    //@END

    //@H c20_check_right_id
    #[kani::proof]
    #[kani::stub(alloc::fmt::format, stub_format)]
    fn c20_check_right_id() {
        let (g, _nl, nr) = any_grammar();
        let raw: i64 = kani::any();
        //@KF F-C20-1: raw == nr as i64
        let r = g.check_right_id(raw);
        let in_range = raw >= 0 && raw < nr as i64;
        match &r {
            Ok(v) => {
                assert!(in_range, "an accepted right id indexes an existing row/column of the matrix");
                assert!(*v as i64 == raw, "the accepted id is returned unchanged");
            }
            Err(_) => assert!(!in_range, "in-range ids are accepted"),
        }
        kani::cover!(r.is_ok() && raw == nr as i64 - 1, "largest valid id");
        kani::cover!(r.is_err() && raw == nr as i64 + 1, "n+1 rejected");
        kani::cover!(r.is_err() && raw == -1, "-1 rejected");
        kani::cover!(r.is_err() && raw == 65536, "65536 rejected (would wrap to 0 as u16)");
        std::mem::forget(r);
        std::mem::forget(g);
    }
    //@END

    //@H c20_check_cost
    #[kani::proof]
    #[kani::stub(alloc::fmt::format, stub_format)]
    fn c20_check_cost() {
        let (g, _nl, _nr) = any_grammar();
        let raw: i64 = kani::any();
        let r = g.check_cost(raw);
        let fits = raw >= -32768 && raw <= 32767;
        match &r {
            Ok(v) => {
                assert!(fits, "an accepted cost fits the dictionary's cost type");
                assert!(*v as i64 == raw);
            }
            Err(_) => assert!(!fits),
        }
        kani::cover!(r.is_ok() && raw == 32767, "i16::MAX accepted");
        kani::cover!(r.is_ok() && raw == -32768, "i16::MIN accepted");
        kani::cover!(r.is_err() && raw == 32768, "32768 rejected");
        kani::cover!(r.is_err() && raw == -32769, "-32769 rejected");
        std::mem::forget(r);
        std::mem::forget(g);
    }
    //@END
}
