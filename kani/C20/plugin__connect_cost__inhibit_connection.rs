// C20 — inhibited-connection pairs: out-of-range members must be rejected when the plugin is set up,
// and an accepted pair must change exactly its own matrix cell.
#[cfg(kani)]
mod verif_c20 {
    use super::*;
    use crate::dic::connect::ConnectionMatrix;

    fn stub_format(_a: std::fmt::Arguments<'_>) -> String {
        String::new()
    }

    const NL: usize = /*@NL@*/3;
    const NR: usize = /*@NR@*/2;

    //@H c20_inhibit_pair
    #[kani::proof]
    #[kani::unwind(/*@UNW@*/10)]
    #[kani::stub(alloc::fmt::format, stub_format)]
    fn c20_inhibit_pair() {
        let mut cells: Vec<i16> = Vec::with_capacity(NL * NR);
        for _ in 0..NL * NR {
            cells.push(kani::any());
        }
        let mut g = Grammar::verif_with_matrix(ConnectionMatrix::verif_from_vec(cells.clone(), NL, NR));
        let left: i16 = kani::any();
        let right: i16 = kani::any();
        let in_range = left >= 0 && (left as usize) < NL && right >= 0 && (right as usize) < NR;
        // what set_up does with the deserialised pairs
        let pairs = vec![(left, right)];
        let checked = InhibitConnectionPlugin::check_pairs(&pairs, &g);
        match &checked {
            Ok(()) => assert!(in_range, "an accepted pair lies inside the matrix"),
            Err(_) => assert!(!in_range, "in-range pairs are accepted"),
        }
        if checked.is_ok() {
            let mut plugin = InhibitConnectionPlugin::default();
            plugin.inhibit_pairs = pairs;
            plugin.edit(&mut g);
            for r in 0..NR {
                for l in 0..NL {
                    let now = g.conn_matrix().cost(l as u16, r as u16);
                    if l == left as usize && r == right as usize {
                        assert!(now == Grammar::INHIBITED_CONNECTION, "the inhibited cell is set");
                    } else {
                        assert!(now == cells[r * NL + l], "no other cell is edited");
                    }
                }
            }
            std::mem::forget(plugin);
        }
        kani::cover!(checked.is_ok() && left as usize == NL - 1 && right as usize == NR - 1, "last cell");
        kani::cover!(checked.is_err() && left as usize == NL && right == 0, "left == number of rows rejected");
        kani::cover!(checked.is_err() && left == 0 && right as usize == NR, "right == number of columns rejected");
        kani::cover!(checked.is_err() && left == -1, "negative rejected");
        std::mem::forget(checked);
        std::mem::forget(g);
        std::mem::forget(cells);
    }
    //@END
}
