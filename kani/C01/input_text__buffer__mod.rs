// C01-a — a partition of the normalised text is carried to a partition of the original text by the offset map.
#[cfg(kani)]
mod verif_c01 {
    use super::*;

    //@H c01_partition_transfer
    #[kani::proof]
    #[kani::unwind(24)]
    fn c01_partition_transfer() {
        // original: a é あ 😀 b ㍿  -> character boundaries 0 1 3 6 10 11 14
        const OB: [usize; 7] = [0, 1, 3, 6, 10, 11, 14];
        let mut buf = InputBuffer::default();
        buf.original = String::from("a\u{e9}\u{3042}\u{1f600}b\u{337f}");
        buf.state = BufferState::RO;
        // normalised text of 4 characters: x あ y z (character boundaries at bytes 0 1 4 5 6)
        buf.modified = String::from("x\u{3042}yz");
        buf.mod_c2b = vec![0, 1, 4, 5, 6];
        const CB: [usize; 5] = [0, 1, 4, 5, 6];
        // ANY offset map satisfying the invariant I (C08): non-boundary entries are arbitrary
        let mut m: Vec<usize> = Vec::with_capacity(7);
        for _ in 0..7 {
            m.push(kani::any());
        }
        let mut idx = [0usize; 5];
        for t in 0..5 {
            let i: usize = kani::any();
            kani::assume(i < 7);
            kani::assume(m[CB[t]] == OB[i]);
            idx[t] = i;
            if t > 0 {
                kani::assume(idx[t - 1] <= i);
            }
        }
        kani::assume(idx[0] == 0 && idx[4] == 6);
        buf.m2o = m;
        // three consecutive tokens [0,i) [i,j) [j,4) in characters of the normalised text (empty ones allowed)
        let i: usize = kani::any();
        let j: usize = kani::any();
        kani::assume(i <= j && j <= 4);
        let cuts = [0usize, i, j, 4];
        let mut prev_end = 0usize;
        let mut total = 0usize;
        for t in 0..3 {
            let (bc, ec) = (cuts[t], cuts[t + 1]);
            let begin = buf.to_orig_byte_idx(bc); // Morpheme::begin
            let end = buf.to_orig_byte_idx(ec); // Morpheme::end
            assert!(begin == prev_end, "each morpheme begins where the previous one ended (first at 0)");
            assert!(begin <= end);
            assert!(buf.original.is_char_boundary(begin) && buf.original.is_char_boundary(end), "boundaries are UTF-8 character boundaries");
            let r = buf.to_orig(CB[bc]..CB[ec]);
            assert!(r.start == begin && r.end == end);
            assert!(buf.get_original_index(CB[bc]) == begin);
            let surface = buf.orig_slice(CB[bc]..CB[ec]); // Morpheme::surface
            assert!(surface.len() == end - begin);
            assert!(surface.as_ptr() as usize == buf.original.as_ptr() as usize + begin, "surface is the original text in the range");
            let s2 = buf.orig_slice_c(bc..ec);
            assert!(s2.len() == surface.len() && s2.as_ptr() == surface.as_ptr());
            total += surface.len();
            prev_end = end;
        }
        assert!(prev_end == 14, "the last morpheme ends at the input length");
        assert!(total == 14, "surfaces concatenate to the input");
        kani::cover!(i == j && i > 0 && i < 4, "an empty middle token");
        kani::cover!(idx[1] == idx[2] && i == 1 && j == 2, "a token with an empty original range");
        kani::cover!(idx[1] == 4 && i == 1, "cut after an astral character of the original");
        std::mem::forget(buf);
    }
    //@END
}
