// C01 (f) - result nodes carry the byte offsets of their lattice nodes in the normalised text, whatever the loaded word
// information says: StatefulTokenizer::resolve_best_path over a small lattice with dictionary words whose stored surface
// differs in length from the text they matched, and an OOV node.
#[cfg(kani)]
mod verif_c01_resolve {
    use super::*;
    use crate::analysis::node::{LatticeNode, PathCost};
    use crate::dic::connect::ConnectionMatrix;
    use crate::dic::grammar::Grammar;
    use crate::dic::lexicon::Lexicon;
    use crate::dic::lexicon_set::LexiconSet;
    use crate::dic::word_id::WordId;
    use crate::plugin::input_text::InputTextPlugin;
    use crate::plugin::path_rewrite::PathRewritePlugin;

    fn stub_format(_a: std::fmt::Arguments<'_>) -> String {
        String::new()
    }

    struct LexOnly {
        set: LexiconSet<'static>,
    }
    impl DictionaryAccess for LexOnly {
        fn grammar(&self) -> &Grammar<'_> {
            unreachable!()
        }
        fn lexicon(&self) -> &LexiconSet<'_> {
            &self.set
        }
        fn input_text_plugins(&self) -> &[Box<dyn InputTextPlugin + Sync + Send>] {
            &[]
        }
        fn oov_provider_plugins(&self) -> &[Box<dyn OovProviderPlugin + Sync + Send>] {
            &[]
        }
        fn path_rewrite_plugins(&self) -> &[Box<dyn PathRewritePlugin + Sync + Send>] {
            &[]
        }
    }

    /// one two-token path over "あy": [あ] = word 0 (stored surface "q": 1 byte for 3 bytes of text), [y] = an unknown word (`oov`) or word 1
    /// (empty stored surface).  The path is concrete: a symbolic winner among competing segmentations makes the node index, the slice of an
    /// unknown word and the length of its copy symbolic (measured: two competing segmentations over 4 characters, no result in 25 min / 9 GB)
    fn resolve_case(oov: bool) {
        let h0: u8 = kani::any();
        let h1: u8 = kani::any();
        kani::assume(h0 < 127 && h1 < 127);
        let img: &'static [u8] = Box::leak(Box::new([
            8u8, 0, 0, 0, 24, 0, 0, 0,
            1, b'q', 0, h0, 0, 0, 0, 0xff, 0xff, 0xff, 0xff, 0, 0, 0, 0, 0, // surface 1 unit | key length | pos 0 | norm "" | dic form -1 | reading "" | 4 empty arrays
            0, h1, 0, 0, 0, 0xff, 0xff, 0xff, 0xff, 0, 0, 0, 0, 0,
        ]));
        let dict = LexOnly { set: LexiconSet::new(Lexicon::verif_with_infos(img, 2, false), 1) };
        let mut t = StatefulTokenizer::create(dict, false, Mode::C);
        // あ y : character boundaries at bytes 0 3 4
        const C2B: [usize; 3] = [0, 3, 4];
        t.input = InputBuffer::verif_text("\u{3042}y");
        let conn = ConnectionMatrix::verif_from_vec(vec![0i16; 4], 2, 2);
        t.lattice.reset(2);
        let pos: u16 = kani::any();
        let c: [i16; 2] = kani::any();
        t.lattice.insert(Node::new(0, 1, 0, 0, c[0], WordId::new(0, 0)), &conn);
        let second = if oov { WordId::oov(pos as u32) } else { WordId::new(0, 1) };
        t.lattice.insert(Node::new(1, 2, 0, 0, c[1], second), &conn);
        let e = t.lattice.connect_eos(&conn);
        assert!(e.is_ok());
        let r = t.resolve_best_path();
        assert!(r.is_ok());
        if let Ok(p) = &r {
            assert!(p.len() == 2);
            assert!(p[0].begin() == 0 && p[0].end() == 1 && p[1].begin() == 1 && p[1].end() == 2, "character ranges of the path");
            for n in p.iter() {
                assert!(n.begin_bytes() == C2B[n.begin()], "begin in bytes = byte offset of the node's first character in the normalised text");
                assert!(n.end_bytes() == C2B[n.end()], "end in bytes = byte offset behind the node's last character, whatever the stored surface is");
            }
            assert!(p[0].word_id() == WordId::new(0, 0) && p[0].word_info().surface().len() == 1 && p[0].word_info().head_word_length() == h0 as usize);
            assert!(p[0].total_cost() == c[0] as i32 && p[1].total_cost() == c[0] as i32 + c[1] as i32, "cumulative costs carried over");
            if oov {
                assert!(p[1].word_id().is_oov());
                assert!(p[1].word_info().surface() == "y" && p[1].word_info().pos_id() == pos, "unknown word: surface = its text, the provider's part of speech");
            } else {
                assert!(p[1].word_id() == WordId::new(0, 1) && p[1].word_info().surface().len() == 0 && p[1].word_info().head_word_length() == h1 as usize);
            }
            kani::cover!(h0 == 0 && h1 == 126, "extreme key lengths");
        }
        std::mem::forget(r);
        std::mem::forget(e);
        std::mem::forget(conn);
        std::mem::forget(t);
    }

    //@H c01_resolve_best_path_oov
    #[kani::proof]
    #[kani::unwind(8)]
    #[kani::stub(alloc::fmt::format, stub_format)]
    fn c01_resolve_best_path_oov() {
        resolve_case(true);
    }
    //@END

    //@H c01_resolve_best_path_words
    #[kani::proof]
    #[kani::unwind(8)]
    #[kani::stub(alloc::fmt::format, stub_format)]
    fn c01_resolve_best_path_words() {
        resolve_case(false);
    }
    //@END
}
