"""C01 — morphemes partition the original text (DESIGN §4 C01): decided compositionally through three links."""
import importlib.util
import os
from runner import Harness

HERE = os.path.dirname(os.path.abspath(__file__))


def _load(prop):
    sp = importlib.util.spec_from_file_location("spec_%s_for_c01" % prop, os.path.join(HERE, "..", prop, "spec.py"))
    m = importlib.util.module_from_spec(sp)
    sp.loader.exec_module(m)
    return m


C08 = _load("C08")
C02 = _load("C02")
C14 = _load("C14")
JOIN_RANGES = {"quick": [(0, 2)], "thorough": [(0, 2), (1, 3), (0, 3), (1, 2)]}
QUICK_BATCH = ("mid_longer", "mid_delete", "start_delete", "end_longer", "two_chars_to_one", "expand_1_to_3")
QUICK_LATTICE = ("2c_minimal",)


def _batch_shapes(ctx):
    return [(n, s, e) for (n, s, e, t) in C08.SHAPES if ctx.tier in t and (ctx.tier == "thorough" or n in QUICK_BATCH)]


def _lattice_shapes(ctx):
    return [(n, c, nodes) for (n, c, nodes, t) in C02.SHAPES if ctx.tier in t and (ctx.tier == "thorough" or n in QUICK_LATTICE)]


def generate(ctx):
    edit_tpl = open(os.path.join(HERE, "..", "C08", "input_text__buffer__edit.rs")).read()
    lat_tpl = open(os.path.join(HERE, "..", "C02", "analysis__lattice.rs")).read()
    # only the shared helpers + generated whole-lattice harnesses of C02 are needed: drop its step/eos harnesses
    import re
    lat_tpl = re.sub(r"^[ \t]*//@H c02_(step|eos)\w*[ \t]*\n.*?^[ \t]*//@END[ \t]*\n", "", lat_tpl, flags=re.M | re.S)
    gens = [C08.gen_shape(n, s, e)[0].replace("c08_batch_", "c01_batch_") for (n, s, e) in _batch_shapes(ctx)]
    lat = [C02.gen_shape(n, c, nodes)[0].replace("c02_whole_", "c01_path_") for (n, c, nodes) in _lattice_shapes(ctx)]
    join_tpl = open(os.path.join(HERE, "..", "C14", "analysis__node.rs")).read()
    join_tpl = join_tpl.replace("/*@MOD@*/verif_c14", "verif_c01_join").replace("/*@GENERATED@*/", C14.gen_text("c01_join", JOIN_RANGES[ctx.tier]))
    return {"analysis__node": join_tpl,
            "input_text__buffer__edit": edit_tpl.replace("/*@GENERATED@*/", "\n\n".join(gens)),
            "analysis__lattice": lat_tpl.replace("/*@GENERATED@*/", "\n\n".join(lat))}


def params(ctx):
    return {"MOD": "verif_c01", "NL": 3, "NR": 2, "K": 3, "UNW_STEP": 8}


def harnesses(ctx):
    q = ctx.tier == "quick"
    hs = [Harness("c01_partition_transfer", "input_text__buffer__mod",
                  ["InputBuffer::to_orig_byte_idx (Morpheme::begin/end)", "InputTextIndex::orig_slice (Morpheme::surface)", "InputTextIndex::to_orig",
                   "InputBuffer::get_original_index", "InputBuffer::orig_slice_c"],
                  "concrete 6-character mixed-width original, 4-character normalised text, ANY offset map satisfying the invariant, any two cut points",
                  kernel="C01-a a partition of the normalised text maps to a partition of the original (adjacent, 0..len, on character boundaries, surfaces add up)",
                  assumptions=["the offset map satisfies the invariant I (preserved by every edit batch: c01_batch_*)",
                               "token ranges are consecutive in the normalised text (c01_path_*: the best path is gap-free)"], timeout_s=900, mem_gb=12)]
    for nm, what in (("oov", "[あ](word) [y](unknown word)"), ("words", "[あ](word) [y](word)")):
      hs.append(Harness("c01_resolve_best_path_" + nm, "analysis__stateful_tokenizer",
                      ["StatefulTokenizer::resolve_best_path", "Lattice::fill_top_path", "Lattice::node", "InputBuffer::to_curr_byte_idx", "InputBuffer::curr_slice_c",
                       "LexiconSet::get_word_info_subset", "WordInfoParser::parse", "ResultNode::new", "Lattice::{reset,insert,connect_eos}"],
                      "2-character mixed-width text, two-token path " + what + " with symbolic word costs" + "; dictionary words whose stored surface (0 / 1 byte) and key length (symbolic, 0..126) differ from the matched text, unknown word with a symbolic part of speech",
                      kernel="C01-f result nodes take their byte range from the lattice node's character range, not from the loaded word information",
                      assumptions=["one path per harness (no competing segmentation); zero connection costs (C02 decides the choice of path)", "identity offset map (C01-a/b decide the translation to the original)"],
                      stubs=["alloc::fmt::format -> empty string"], fs_array=True, timeout_s=3000, mem_gb=30, rust_mod="verif_c01_resolve", tiers=("thorough",), required=False,
                      outside=["longer paths (the conversion is per node)"]))
    hs.append(Harness("c01_split_partition", "analysis__node",
                      ["ResultNode::split", "NodeSplitIterator::next", "LexiconSet::get_word_info_subset", "WordInfoParser::parse (HEAD_WORD_LENGTH)", "InputBuffer::ch_idx"],
                      "a parent node [b, e) anywhere in an 8-byte ASCII text, two A-split units whose key lengths are any values < 127 with the first fitting the parent",
                      kernel="C01 A/B sub-tokens partition the parent's range: intermediate ends from the key length, the last sub-token inherits the parent end",
                      assumptions=["the first unit's key length does not exceed the parent (declared units concatenate to the word's key)", "ASCII text (bytes = characters)"],
                      stubs=["alloc::fmt::format -> empty string"], fs_array=True, timeout_s=1200, mem_gb=16))
    for h in C14.gen_harnesses("c01_join", JOIN_RANGES[ctx.tier]):
        if q and "concat_oov_nodes" not in h.name:
            continue  # quick: the OOV merge only (concat_nodes has the same range code and is decided by the C14 check and the thorough tier)
        h.rust_mod = "verif_c01_join"
        h.kernel = "C01 joined nodes take the begin of the first and the end of the last merged node (characters and bytes), whatever the dictionary-side strings are"
        hs.append(h)
    for (n, s, e) in _batch_shapes(ctx):
        _, target = C08.gen_shape(n, s, e)
        heavy = len(e) >= 2
        hs.append(Harness("c01_batch_" + n, "input_text__buffer__edit", ["resolve_edits", "add_replace"],
                          "shape %r, edits %s -> %r; any previous map satisfying the invariant (abstract original <= %d bytes)" % (s, [(a, b, r) for (a, b, r, k) in e], target, C08.OLMAX),
                          kernel="C01-b every committed edit batch preserves the offset-map invariant (start->0, end->original length, boundaries->boundaries, monotone)",
                          shape={"source": s, "edits": [[a, b, r, k] for (a, b, r, k) in e]},
                          assumptions=["edits sorted, non-overlapping, on character boundaries (what the input plugins emit)"],
                          timeout_s=900 if q else 3000, mem_gb=12 if q else 40, required=not heavy))
    for (n, c, nodes) in _lattice_shapes(ctx):
        heavy = c >= 3
        hs.append(Harness("c01_path_" + n, "analysis__lattice", C02.LATTICE_FNS + ["Lattice::connect_eos", "Lattice::fill_top_path", "Lattice::node"],
                          "lattice topology %s over %d characters, every id/cost/matrix cell arbitrary" % (nodes, c),
                          kernel="C01-c the best path returned by the lattice is gap-free: first node begins at 0, each begins where the previous ended, the last ends at the text end",
                          shape={"chars": c, "spans": nodes}, fs_array=True, timeout_s=900 if not heavy else 3000, mem_gb=12 if not heavy else 36, required=not heavy))
    return hs


OUTSIDE = ["the end-to-end statement (regex/aho-corasick/NFKC plugins, dictionaries) is NOT decided; only the three links and their written-down chaining",
           "that plugins emit sorted non-overlapping edits on boundaries", "resolve_best_path's char->byte conversion of node ranges (table correctness: C08-d)",
           "which tokens the path-rewrite plugins join (C14: only the merge kernels c01_join_* are decided); A/B sub-nodes only at the iterator level (c01_split_partition), which words carry which splits is C09", "an input whose normalised form is empty"]
EXPLANATION = "Compositional: partition transfer through the offset map, invariant preservation per edit batch, gap-free best path."
MANIFEST = dict(
    design_ref="DESIGN.md §4 C01",
    technique="bounded model checking (Kani/CBMC/cadical), compositional: symbolic offset maps through InputBuffer's original-range accessors, inductive step through resolve_edits, whole small lattices for path contiguity, the split iterator and the two merge kernels with symbolic ranges",
    text=("The end-to-end statement is out of symbolic reach (regex, NFKC, dictionaries); what is decided are the three links it rests on, each for all values of its symbolic inputs: "
          "(a) for ANY offset map satisfying the invariant and any consecutive token ranges of the normalised text, begin/end/surface computed by the real accessors are adjacent, start at 0, "
          "end at the input length, lie on character boundaries and add up to the input; (b) every edit batch of an enumerated shape family maps any invariant-satisfying map to an "
          "invariant-satisfying map (so the invariant holds after any number of plugin rewrites); (c) the path the lattice returns is gap-free from 0 to the text end; (d) A/B sub-nodes partition their parent and (e) a node joined by a path-rewrite plugin begins where the first and ends where the last merged node did, in characters and bytes, whatever the dictionary-side strings are; (f, thorough tier only, optional: heavy) resolve_best_path gives every result node the byte offsets of its lattice node's first / behind its last character, whatever the loaded word information says. "
          "The chaining argument is written in DESIGN.md, not machine-checked."),
    note="Kernel-level and compositional; plugin behaviour (which edits, which joins) is outside. Trusted: Kani/CBMC/cadical and the chaining argument.",
)
