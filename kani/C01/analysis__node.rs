// C01 — A/B sub-nodes partition the range of their parent node (intermediate ends from the key length of the
// split units, the last sub-node inherits the parent end).
#[cfg(kani)]
mod verif_c01 {
    use super::*;
    use crate::analysis::Mode;
    use crate::dic::lexicon::Lexicon;

    fn stub_format(_a: std::fmt::Arguments<'_>) -> String {
        String::new()
    }

    //@H c01_split_partition
    #[kani::proof]
    #[kani::unwind(12)]
    #[kani::stub(alloc::fmt::format, stub_format)]
    fn c01_split_partition() {
        // two split units = words 0 and 1 of a system lexicon; their key lengths are symbolic
        let h0: u8 = kani::any();
        let h1: u8 = kani::any();
        kani::assume(h0 < 127 && h1 < 127);
        let img: &'static [u8] = Box::leak(Box::new([
            8u8, 0, 0, 0, 22, 0, 0, 0, // offset table: word 0 at 8, word 1 at 22
            0, h0, 0, 0, 0, 0xff, 0xff, 0xff, 0xff, 0, 0, 0, 0, 0, // surface "" | key length | pos | norm "" | dic form -1 | reading "" | 4 empty arrays
            0, h1, 0, 0, 0, 0xff, 0xff, 0xff, 0xff, 0, 0, 0, 0, 0,
        ]));
        let set = LexiconSet::new(Lexicon::verif_with_infos(img, 2, false), 1);
        let text = InputBuffer::verif_ascii("abcdefgh");
        // parent node [b, e) of the normalised text (ASCII: bytes = characters)
        let b: u16 = kani::any();
        let e: u16 = kani::any();
        kani::assume(b < e && e <= 8);
        // the first unit fits inside the parent (true whenever the declared units concatenate to the word's key)
        kani::assume(h0 as u16 <= e - b);
        let wi = WordInfoData {
            a_unit_split: vec![WordId::new(0, 0), WordId::new(0, 1)],
            ..Default::default()
        };
        let parent = ResultNode::new(Node::new(b, e, 1, 1, 0, WordId::new(0, 5)), 0, b, e, wi.into());
        assert!(parent.num_splits(Mode::A) == 2 && parent.num_splits(Mode::C) == 0);
        let mut it = parent.split(Mode::A, &set, InfoSubset::HEAD_WORD_LENGTH, &text);
        let n0 = it.next();
        let n1 = it.next();
        let n2 = it.next();
        assert!(n0.is_some() && n1.is_some() && n2.is_none(), "exactly the declared units, in order");
        if let (Some(n0), Some(n1)) = (&n0, &n1) {
            assert!(n0.word_id() == WordId::new(0, 0) && n1.word_id() == WordId::new(0, 1));
            assert!(n0.begin_bytes() == b as usize, "the first sub-token begins where the parent begins");
            assert!(n0.end_bytes() == b as usize + h0 as usize, "intermediate ends follow the key length of the unit");
            assert!(n1.begin_bytes() == n0.end_bytes(), "each sub-token begins where the previous one ended");
            assert!(n1.end_bytes() == e as usize, "the last sub-token ends where the parent ends");
            assert!(n0.begin() == b as usize && n0.end() == n0.end_bytes() && n1.begin() == n0.end() && n1.end() == e as usize,
                "character ranges partition the parent as well");
        }
        kani::cover!((h0 as u16 + h1 as u16) < e - b, "declared key lengths shorter than the parent (last unit absorbs the rest)");
        kani::cover!(h0 as u16 == e - b, "first unit covers the whole parent: the last one is empty");
        kani::cover!(b > 0 && e < 8, "parent in the middle of the text");
        std::mem::forget(n0);
        std::mem::forget(n1);
        std::mem::forget(n2);
        std::mem::forget(parent);
        std::mem::forget(text);
        std::mem::forget(set);
    }
    //@END
}
