"""C13 — unknown-word candidates follow the character-class definition (DESIGN §4 C13)."""
from runner import Harness


def params(ctx):
    q = ctx.tier == "quick"
    n, nb = (4, 4) if q else (6, 5)
    return {"N": n, "NB": nb, "UNW": n + 3, "UNWB": nb + 4, "LATMOD": "verif_c13_lat", "LATNAME": "c13_lattice_providers", "PROVNAME": "c13_provide_oovs_recorded"}


LAT_FNS = ["LatticeBuilder::build_lattice", "LatticeBuilder::provide_oovs", "LexiconSet::lookup (lexicon without keys)", "Lattice::{reset,has_previous_node,insert,connect_eos}",
           "CreatedWords::{add_word,is_empty}", "SimpleOovPlugin::provide_oov", "InputBuffer::{build,cat_at_char,can_bow,get_word_candidate_length}"]


def prov_harness(name, rust_mod, kernel):
    return Harness(name, "analysis__stateful_tokenizer", ["LatticeBuilder::provide_oovs", "Lattice::{reset,insert,has_previous_node}", "CreatedWords::{single,add_word,has_word,is_empty}"],
                   "one call at position 0 of a 2-character ASCII text; symbolic word-start flags; nothing or words of one arbitrary length created before; a harness provider returning a one-character word",
                   kernel=kernel, assumptions=["the provider returns one word of one character (what it returns is the providers' business: Out)", "1x1 zero connection matrix"],
                   fs_array=True, timeout_s=900, mem_gb=12, rust_mod=rust_mod, outside=["the loop over positions and providers (build_lattice: thorough-only harness, out of memory)"])


def lat_harness(name, rust_mod, kernel):
    return Harness(name, "analysis__stateful_tokenizer", LAT_FNS,
                   "2-character ASCII text, each character's class set any combination of ALPHA, NOOOVBOW, NOOOVBOW2 or KANJI alone; providers: a harness provider offering a one-character word wherever it is asked, then the repository's SimpleOovPlugin as fallback; no dictionary words",
                   kernel=kernel, assumptions=["no dictionary word matches (lexicon without keys)", "1x1 zero connection matrix (C02 decides costs)"],
                   fs_array=True, timeout_s=3000, mem_gb=40, rust_mod=rust_mod, tiers=("thorough",), required=False,
                   outside=["texts longer than 2 characters", "dictionary words ending at positions that cannot start a word (the can_bow filter on lookups)", "the MeCab / regex providers themselves"])


def harnesses(ctx):
    q = ctx.tier == "quick"
    n, nb = (4, 4) if q else (6, 5)
    return [
        Harness("c13_class_runs", "input_text__buffer__mod", ["InputBuffer::fill_cat_continuity", "InputTextIndex::cat_continuous_len"],
                "%d characters, each with any non-empty set over 3 class bits" % n,
                kernel="C13-a class runs: maximal stretch, determined left to right from the start of the text, over which consecutive characters keep a class in common",
                timeout_s=900 if q else 2400, mem_gb=12 if q else 30, outside=["texts longer than %d characters" % n]),
        Harness("c13_word_starts", "input_text__buffer__mod",
                ["InputBuffer::build (can_bow rules, category table)", "InputBuffer::can_bow", "InputBuffer::get_word_candidate_length", "InputTextIndex::cat_at_char",
                 "CharacterCategory::get_category_types"],
                "concrete %d-character ASCII text; each character's class set any non-empty combination of ALPHA, GREEK, KANJI, NOOOVBOW, NOOOVBOW2; any query position" % nb,
                kernel="C13-b permissible word starts and the fallback provider's candidate length",
                timeout_s=1500 if q else 3000, mem_gb=20 if q else 40, outside=["multi-byte texts (tables: C08-d)", "more than %d characters" % nb]),
        Harness("c13_created_words", "analysis__created", ["CreatedWords::single", "CreatedWords::add_word", "CreatedWords::add", "CreatedWords::has_word", "CreatedWords::is_empty"],
                "two arbitrary added lengths and one queried length, all i64 >= 1",
                kernel="C13-c created-length set: exact below 64, conservative (never No for a present length) above", timeout_s=600, mem_gb=8),
        prov_harness("c13_provide_oovs_recorded", "verif_c13_lat",
                     "C13-d every word a provider returns is inserted into the lattice and recorded in the created-length set, wherever it ends"),
        lat_harness("c13_lattice_providers", "verif_c13_lat",
                    "C13-d providers are consulted exactly at reachable positions whose character is not NOOOVBOW/NOOOVBOW2; the last provider is asked again where nothing exists"),
    ]


OUTSIDE = ["provider ordering and fallback re-invocation in build_lattice (dyn plugins)", "the regex provider", "OOV morpheme attributes (is_oov/part of speech/forms)",
           "MeCab candidate enumeration per class (hashbrown lookups with symbolic keys: attempted in the thorough tier only)"]
EXPLANATION = "Class-run lengths for all class assignments of N characters against the statement's left-to-right definition; word-start rules through the real build."
MANIFEST = dict(
    design_ref="DESIGN.md §4 C13",
    technique="bounded model checking (Kani/CBMC/cadical): symbolic per-character class sets through InputBuffer::fill_cat_continuity and InputBuffer::build; symbolic lengths through CreatedWords",
    text=("Solver-decided for every class assignment of N characters: cat_continuous_len equals the distance to the end of the class run containing the character, with runs cut "
          "greedily from the start of the text as the statement defines them (so a base character is not separated from following marks because of what follows); can_bow and "
          "get_word_candidate_length equal the documented word-start rules (NOOOVBOW, NOOOVBOW2, same-script continuation) for every class combination; the created-length bit set is "
          "exact below 64 and conservative above for all i64 lengths. Candidate enumeration by the MeCab/regex providers and the loop that consults the providers (LatticeBuilder::build_lattice: "
          "a thorough-only optional harness over a 2-character text with symbolic classes exists, measured out of memory at 24 GB) are outside."),
    note="N = 4 (quick) / 6 (thorough) characters; ASCII text for the word-start harness. Trusted: Kani/CBMC/cadical; the reference implementations in the harness.",
)
