// C13 — class runs and permissible word starts as the OOV providers see them.
#[cfg(kani)]
mod verif_c13 {
    use super::*;
    use crate::dic::character_category::CharacterCategory;
    use crate::dic::connect::ConnectionMatrix;

    const N: usize = /*@N@*/4;
    const NB: usize = /*@NB@*/4;

    /// A non-empty class set over 3 class bits (KANJI, SYMBOL, NUMERIC stand for any three classes).
    fn any_classes() -> CategoryType {
        let b: u32 = kani::any();
        kani::assume(b != 0 && b < 8);
        CategoryType::from_bits_retain(b << 2)
    }

    //@H c13_class_runs
    #[kani::proof]
    #[kani::unwind(/*@UNW@*/7)]
    fn c13_class_runs() {
        let mut buf = InputBuffer::default();
        let mut cats = [CategoryType::empty(); N];
        for i in 0..N {
            cats[i] = any_classes();
            buf.mod_cat.push(cats[i]);
            buf.mod_chars.push('x');
        }
        buf.state = BufferState::RO;
        buf.fill_cat_continuity();
        assert!(buf.mod_cat_continuity.len() == N);
        // the statement's definition: runs are cut greedily from the start of the text; a run
        // continues while its characters keep a class in common
        let mut want = [0usize; N];
        let mut start = 0usize;
        for _ in 0..N {
            if start < N {
                let mut common = cats[start];
                let mut end = start + 1;
                for _ in 0..N {
                    if end < N && !(common & cats[end]).is_empty() {
                        common = common & cats[end];
                        end += 1;
                    }
                }
                // `end` stops at the first character that shares nothing with the run so far
                for i in 0..N {
                    if i >= start && i < end {
                        want[i] = end - i;
                    }
                }
                start = end;
            }
        }
        for i in 0..N {
            assert!(buf.cat_continuous_len(i) == want[i], "distance to the end of the class run containing the character (runs determined from the text start)");
        }
        kani::cover!(want[0] == N, "one run over the whole text");
        kani::cover!(want[0] == 1 && want[1] == 1, "every character its own run");
        kani::cover!(want[0] == 2 && N > 2 && !(cats[1] & cats[2]).is_empty(), "run ends although the next two characters share a class (multi-class character)");
        std::mem::forget(buf);
    }
    //@END

    /// can_bow through the real `build` on a concrete ASCII text whose per-character classes are symbolic.
    //@H c13_word_starts
    #[kani::proof]
    #[kani::unwind(/*@UNWB@*/8)]
    fn c13_word_starts() {
        // characters 'a','b','c',... each get their own elementary interval with a symbolic class set
        let mut bounds: Vec<u32> = Vec::with_capacity(NB + 1);
        let mut tcats: Vec<CategoryType> = Vec::with_capacity(NB + 2);
        let mut cats = [CategoryType::empty(); NB];
        tcats.push(CategoryType::DEFAULT);
        let mut text = String::with_capacity(NB);
        for i in 0..NB {
            bounds.push('a' as u32 + i as u32);
            let bits: u32 = kani::any();
            // classes: ALPHA, GREEK, KANJI, NOOOVBOW, NOOOVBOW2 in any non-empty combination
            kani::assume(bits != 0 && bits < 32);
            let mut c = CategoryType::empty();
            if bits & 1 != 0 { c |= CategoryType::ALPHA; }
            if bits & 2 != 0 { c |= CategoryType::GREEK; }
            if bits & 4 != 0 { c |= CategoryType::KANJI; }
            if bits & 8 != 0 { c |= CategoryType::NOOOVBOW; }
            if bits & 16 != 0 { c |= CategoryType::NOOOVBOW2; }
            cats[i] = c;
            tcats.push(c);
            text.push((b'a' + i as u8) as char);
        }
        bounds.push('a' as u32 + NB as u32);
        tcats.push(CategoryType::DEFAULT);
        let mut g = Grammar::verif_with_matrix(ConnectionMatrix::verif_from_vec(Vec::new(), 0, 0));
        g.set_character_category(CharacterCategory::verif_from_tables(bounds, tcats));
        let mut buf = InputBuffer::default();
        buf.reset().push_str(&text);
        let r1 = buf.start_build();
        let r2 = buf.build(&g);
        assert!(r1.is_ok() && r2.is_ok());
        // reference: the documented word-start rules
        let same_script = CategoryType::ALPHA | CategoryType::GREEK | CategoryType::CYRILLIC;
        let mut want = [false; NB];
        let mut forbidden_by_prev = false;
        for i in 0..NB {
            let c = cats[i];
            assert!(buf.cat_at_char(i) == c);
            let v = if forbidden_by_prev {
                forbidden_by_prev = false;
                false
            } else if c.intersects(CategoryType::NOOOVBOW2) {
                forbidden_by_prev = true;
                false
            } else if c.intersects(CategoryType::NOOOVBOW) {
                false
            } else if c.intersects(same_script) {
                i == 0 || !c.intersects(cats[i - 1])
            } else {
                true
            };
            want[i] = v;
            assert!(buf.can_bow(i) == v, "permissible word start: not after NOOOVBOW2, not on NOOOVBOW/NOOOVBOW2, not inside a same-script run");
        }
        // the fallback candidate reaches to the next permissible word start (or the end)
        let k: usize = kani::any();
        kani::assume(k < NB);
        let mut dist = NB - k;
        for j in 0..NB {
            let i = NB - 1 - j; // scan downwards so the nearest start wins
            if i > k && want[i] {
                dist = i - k;
            }
        }
        assert!(buf.get_word_candidate_length(k) == dist, "fallback candidate length = distance to the next permissible word start");
        kani::cover!(want[0] && !want[1] && want[NB - 1], "a forbidden start in the middle");
        kani::cover!(!want[1] && cats[0].intersects(CategoryType::NOOOVBOW2) && !cats[1].intersects(CategoryType::NOOOVBOW | CategoryType::NOOOVBOW2), "start forbidden only by the previous NOOOVBOW2 character");
        kani::cover!(dist == NB - k && k + 1 < NB, "no permissible start until the end");
        std::mem::forget(r1);
        std::mem::forget(r2);
        std::mem::forget(buf);
        std::mem::forget(g);
        std::mem::forget(text);
    }
    //@END
}
