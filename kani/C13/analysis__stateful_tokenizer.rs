// C13 (d) / C03 (ii) - LatticeBuilder::build_lattice: unknown-word providers are consulted exactly at the reachable positions whose
// character may start an unknown word, the last provider is asked again where nothing exists, and every text gets a path.
#[cfg(kani)]
mod /*@LATMOD@*/verif_c13_lat {
    use super::*;
    use crate::analysis::created::HasWord;
    use crate::config::Config;
    use crate::dic::character_category::CharacterCategory;
    use crate::dic::connect::ConnectionMatrix;
    use crate::dic::grammar::Grammar;
    use crate::dic::lexicon::Lexicon;
    use crate::dic::lexicon_set::LexiconSet;
    use crate::dic::word_id::WordId;
    use crate::plugin::oov::simple_oov::SimpleOovPlugin;
    use serde_json::Value;
    use std::sync::atomic::{AtomicU8, Ordering};

    const NB: usize = 2;
    /// bit i set: the eager provider was asked at character i
    static ASKED: AtomicU8 = AtomicU8::new(0);

    /// a provider that offers one unknown word of one character wherever it is asked (like a MeCab-style class with length 1),
    /// also where other words exist, and records where it was asked
    struct Eager;
    impl OovProviderPlugin for Eager {
        fn set_up(&mut self, _s: &Value, _c: &Config, _g: &mut Grammar) -> SudachiResult<()> {
            Ok(())
        }
        fn provide_oov(&self, _input: &InputBuffer, offset: usize, _other: CreatedWords, result: &mut Vec<Node>) -> SudachiResult<usize> {
            ASKED.fetch_or(1u8 << offset, Ordering::Relaxed);
            result.push(Node::new(offset as u16, offset as u16 + 1, 0, 0, 0, WordId::oov(7)));
            Ok(1)
        }
    }

    /// One call of provide_oovs at position 0 of "ab": every word the provider returns is inserted into the lattice and recorded in the
    /// created-length set - whatever the word-start flags of the following characters are and whatever was created before.
    //@H /*@PROVNAME@*/c13_provide_oovs_recorded
    #[kani::proof]
    #[kani::unwind(6)]
    fn /*@PROVNAME@*/c13_provide_oovs_recorded () {
        let bow: [bool; 2] = kani::any();
        let buf = InputBuffer::verif_ascii_bow("ab", &bow);
        let conn = ConnectionMatrix::verif_from_vec(vec![0i16; 1], 1, 1);
        let lexicon = LexiconSet::new(Lexicon::verif_no_keys(), 0);
        let providers: Vec<Box<dyn OovProviderPlugin + Sync + Send>> = Vec::new();
        let mut lattice = Lattice::default();
        lattice.reset(2);
        let mut scratch: Vec<Node> = Vec::with_capacity(4);
        // what the dictionary lookup created before: nothing, or words of one arbitrary length
        let before = if kani::any() { CreatedWords::default() } else {
            let l: i64 = kani::any();
            kani::assume(l >= 1 && l <= 2);
            CreatedWords::single(l)
        };
        ASKED.store(0, Ordering::Relaxed);
        let r = {
            let mut b = LatticeBuilder { node_buffer: &mut scratch, lattice: &mut lattice, matrix: &conn, input: &buf, lexicon: &lexicon, oov_providers: &providers };
            b.provide_oovs(0, before, &Eager)
        };
        assert!(r.is_ok());
        assert!(ASKED.load(Ordering::Relaxed) == 1, "the provider was asked at the position");
        assert!(lattice.has_previous_node(1), "the word the provider returned is in the lattice (a word ends at 1)");
        if let Ok(after) = &r {
            assert!(!after.is_empty() && after.has_word(1) != HasWord::No, "and it is recorded as created");
            assert!(*after == before.add_word(1), "nothing else is recorded");
        }
        kani::cover!(!bow[1] && before.is_empty(), "the returned word ends before a character that cannot start a word, nothing created before");
        std::mem::forget(r);
        std::mem::forget(lattice);
        std::mem::forget(scratch);
        std::mem::forget(providers);
        std::mem::forget(lexicon);
        std::mem::forget(conn);
        std::mem::forget(buf);
    }
    //@END

    //@H /*@LATNAME@*/c13_lattice_providers
    #[kani::proof]
    #[kani::unwind(5)]
    fn /*@LATNAME@*/c13_lattice_providers () {
        // text "ab"; each character has a symbolic class set: any combination of ALPHA, NOOOVBOW, NOOOVBOW2, or KANJI alone
        let mut bounds: Vec<u32> = Vec::with_capacity(NB + 1);
        let mut tcats: Vec<CategoryType> = Vec::with_capacity(NB + 2);
        let mut cats = [CategoryType::empty(); NB];
        tcats.push(CategoryType::DEFAULT);
        for i in 0..NB {
            bounds.push('a' as u32 + i as u32);
            let bits: u32 = kani::any();
            kani::assume(bits < 8);
            let mut c = CategoryType::empty();
            if bits & 1 != 0 { c |= CategoryType::ALPHA; }
            if bits & 2 != 0 { c |= CategoryType::NOOOVBOW; }
            if bits & 4 != 0 { c |= CategoryType::NOOOVBOW2; }
            if bits == 0 { c |= CategoryType::KANJI; }
            cats[i] = c;
            tcats.push(c);
        }
        bounds.push('a' as u32 + NB as u32);
        tcats.push(CategoryType::DEFAULT);
        let mut g = Grammar::verif_with_matrix(ConnectionMatrix::verif_from_vec(vec![0i16; 1], 1, 1));
        g.set_character_category(CharacterCategory::verif_from_tables(bounds, tcats));
        let mut buf = InputBuffer::default();
        buf.reset().push_str("ab");
        let r1 = buf.start_build();
        let r2 = buf.build(&g);
        assert!(r1.is_ok() && r2.is_ok());
        let lexicon = LexiconSet::new(Lexicon::verif_no_keys(), 0);
        // providers in configured order: the eager one, then the repository's fallback provider (one word up to the next permissible start)
        let providers: Vec<Box<dyn OovProviderPlugin + Sync + Send>> = vec![Box::new(Eager), Box::new(SimpleOovPlugin::default())];
        let mut lattice = Lattice::default();
        let mut scratch: Vec<Node> = Vec::with_capacity(4);
        ASKED.store(0, Ordering::Relaxed);
        let r = {
            let mut b = LatticeBuilder {
                node_buffer: &mut scratch,
                lattice: &mut lattice,
                matrix: g.conn_matrix(),
                input: &buf,
                lexicon: &lexicon,
                oov_providers: &providers,
            };
            b.build_lattice()
        };
        // C03 (ii): with a fallback provider configured last every position that can be reached gets a node and the text gets a path
        assert!(r.is_ok(), "a text is never left without a path when the fallback provider is configured");
        let no_start = CategoryType::NOOOVBOW | CategoryType::NOOOVBOW2;
        let asked = ASKED.load(Ordering::Relaxed);
        // C13: providers are consulted at a reachable position exactly when its character is not barred from starting an unknown word
        let asked0 = !cats[0].intersects(no_start);
        assert!((asked & 1 != 0) == asked0, "position 0: providers consulted unless the character is NOOOVBOW/NOOOVBOW2");
        // position 1 is reachable if a word ends there: the eager provider's one-character word, or the fallback word of length 1
        let reach1 = asked0 || buf.get_word_candidate_length(0) == 1;
        assert!(lattice.has_previous_node(1) == reach1, "a word ends at 1 exactly if a provider offered one");
        assert!((asked & 2 != 0) == (reach1 && !cats[1].intersects(no_start)), "position 1: consulted iff reachable and not NOOOVBOW/NOOOVBOW2");
        kani::cover!(asked == 3 && cats[0].intersects(CategoryType::ALPHA) && cats[1].intersects(CategoryType::ALPHA), "providers consulted inside a same-script run");
        kani::cover!(asked0 && cats[1].intersects(CategoryType::NOOOVBOW), "a provider's word ends before a character that cannot start a word");
        kani::cover!(!asked0 && !reach1, "fallback word spanning both characters");
        kani::cover!(asked == 0 && reach1, "no provider consulted anywhere, the fallback alone builds the path");
        std::mem::forget(r);
        std::mem::forget(r1);
        std::mem::forget(r2);
        std::mem::forget(lattice);
        std::mem::forget(scratch);
        std::mem::forget(providers);
        std::mem::forget(lexicon);
        std::mem::forget(buf);
        std::mem::forget(g);
    }
    //@END
}
