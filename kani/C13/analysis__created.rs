// C13-c — the created-length set the lattice builder hands to the OOV providers.
#[cfg(kani)]
mod verif_c13 {
    use super::*;

    //@H c13_created_words
    #[kani::proof]
    fn c13_created_words() {
        let a: i64 = kani::any();
        let b: i64 = kani::any();
        let q: i64 = kani::any();
        kani::assume(a >= 1 && b >= 1 && q >= 1);
        let set = CreatedWords::empty().add_word(a).add_word(b);
        assert!(set.not_empty() && !set.is_empty());
        let present = q == a || q == b;
        match set.has_word(q) {
            HasWord::Yes => assert!(present, "Yes only for a length that was added"),
            HasWord::No => assert!(!present, "a present length is never answered No"),
            HasWord::Maybe => assert!(q >= 64, "Maybe only at or above 64"),
        }
        if q < 64 {
            assert!((set.has_word(q) == HasWord::Yes) == present, "exact below 64");
        }
        assert!(CreatedWords::empty().is_empty());
        assert!(CreatedWords::empty().has_word(q) == HasWord::No);
        kani::cover!(a == 63 && q == 63, "length 63");
        kani::cover!(a == 64 && q == 65, "lengths >= 64 share a bit");
        kani::cover!(a > 1_000_000 && q == a, "huge length");
    }
    //@END
}
