// C17 — get_category_types over natively compiled tables vs. the raw definition lines.
#[cfg(kani)]
mod verif_c17 {
    use super::*;

    fn check_table(b: &[u32], c: &[u32], rb: &[u32], re: &[u32], rc: &[u32], lo: u32, hi: u32) {
        assert!(c.len() == b.len() + 1);
        let cc = CharacterCategory {
            boundaries: b.to_vec(),
            categories: c.iter().map(|x| CategoryType::from_bits_retain(*x)).collect(),
        };
        let ch: char = kani::any();
        let cp = ch as u32;
        let got = cc.get_category_types(ch).bits();
        let mut want: u32 = 0;
        let mut covering = 0usize;
        for i in 0..rb.len() {
            if rb[i] <= cp && cp < re[i] {
                want |= rc[i];
                covering += 1;
            }
        }
        if want == 0 {
            want = CategoryType::DEFAULT.bits();
        }
        assert!(got == want, "classes of a code point = union over covering definition lines, DEFAULT if none");
        kani::cover!(covering == 0 && cp > lo, "uncovered code point above the first line");
        kani::cover!(covering >= 1, "covered code point");
        kani::cover!(cp == hi, "last code point of the last line");
        kani::cover!(cp == hi + 1, "first code point after the last line");
        std::mem::forget(cc);
    }

/*@GENERATED@*/
}
