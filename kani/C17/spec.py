"""C17 — character classes of a code point are the union of all covering definition lines (DESIGN §4 C17)."""
import os
import random
from runner import Harness

BITS = {"DEFAULT": 1, "SPACE": 2, "KANJI": 4, "SYMBOL": 8, "NUMERIC": 16, "ALPHA": 32, "HIRAGANA": 64,
        "KATAKANA": 128, "KANJINUMERIC": 256, "GREEK": 512, "CYRILLIC": 1024, "USER1": 1 << 11, "USER2": 1 << 12,
        "USER3": 1 << 13, "USER4": 1 << 14, "NOOOVBOW": 1 << 30, "NOOOVBOW2": 1 << 31, "ALL": 0x3fffffff}
REPO = os.environ.get("VERIF_REPO", "/repo")
REAL = [("resources_char_def", REPO + "/resources/char.def"),
        ("tests_char_def", REPO + "/sudachi/tests/resources/char.def")]


def parse_def(path):
    """Independent 10-line reading of the definition syntax: lines starting with 0x, `a[..b] CAT...` up to a # comment."""
    out = []
    for line in open(path, encoding="utf-8"):
        line = line.strip()
        if not line.startswith("0x"):
            continue
        cols = line.split()
        r = cols[0].split("..")
        b = int(r[0], 16)
        e = int(r[1], 16) + 1 if len(r) > 1 else b + 1
        bits = 0
        for c in cols[1:]:
            if c.startswith("#"):
                break
            bits |= BITS[c]
        out.append((b, e, bits))
    return out


CORE = {
    "nested": [(0x100, 0x1FF, "KANJI"), (0x140, 0x14F, "SYMBOL"), (0x148, 0x148, "NUMERIC"), (0x100, 0x100, "ALPHA"), (0x1FF, 0x1FF, "GREEK")],
    "adjacent": [(0x41, 0x5A, "ALPHA"), (0x5B, 0x60, "SYMBOL"), (0x61, 0x7A, "ALPHA"), (0x30, 0x39, "NUMERIC"), (0x3A, 0x40, "NUMERIC")],
    "dup_reversed": [(0x3040, 0x309F, "HIRAGANA"), (0x30A0, 0x30FF, "KATAKANA"), (0x3040, 0x309F, "HIRAGANA"),
                     (0x30FC, 0x30FC, "HIRAGANA KATAKANA"), (0x20, 0x20, "SPACE"), (0x3040, 0x30FF, "USER1")],
    "edges": [(0x0, 0x1F, "SPACE"), (0xD000, 0xD7FE, "KANJI"), (0xE000, 0xE0FF, "USER2"), (0x10FF00, 0x10FFFE, "USER3"), (0x0, 0x0, "SYMBOL")],
    "touching": [(0x10, 0x20, "KANJI"), (0x18, 0x28, "SYMBOL"), (0x20, 0x30, "NUMERIC"), (0x31, 0x31, "ALPHA"), (0x33, 0x33, "ALPHA")],
    "points_under_all": [(0x50, 0x50, "GREEK"), (0x51, 0x51, "GREEK"), (0x52, 0x52, "CYRILLIC"), (0x40, 0x60, "ALL"), (0x54, 0x54, "NOOOVBOW"), (0x55, 0x56, "NOOOVBOW2")],
    "shared_class_overlaps": [(0x30, 0x32, "NUMERIC"), (0x30, 0x39, "NUMERIC"), (0x43, 0x43, "ALPHA"), (0x42, 0x45, "ALPHA"), (0x54, 0x55, "KANJI"),
                              (0x55, 0x57, "KANJI"), (0x63, 0x64, "NUMERIC"), (0x64, 0x66, "KANJI"), (0x63, 0x66, "NUMERIC")],
    # consecutive lines with the SAME class set in every positional relation: nested, nested at the begin / the end, single point
    # after a range, continuation, extension to the left, adjacent, identical
    "same_class_consecutive": [(0x30, 0x39, "NUMERIC"), (0x32, 0x35, "NUMERIC"), (0x41, 0x5A, "ALPHA"), (0x41, 0x41, "ALPHA"), (0x61, 0x7A, "ALPHA"), (0x7A, 0x7A, "ALPHA"),
                               (0x100, 0x110, "KANJI SYMBOL"), (0x108, 0x10C, "KANJI SYMBOL"), (0x10D, 0x120, "KANJI SYMBOL"), (0x200, 0x210, "GREEK"), (0x1F0, 0x205, "GREEK"),
                               (0x300, 0x310, "CYRILLIC"), (0x311, 0x320, "CYRILLIC"), (0x300, 0x320, "CYRILLIC"), (0x300, 0x320, "CYRILLIC")],
    # explicit DEFAULT lines next to uncovered gaps (which also become DEFAULT), before / after / between other ranges, nested, with a
    # second class, first and last line of the file
    "explicit_default": [(0x10, 0x1F, "DEFAULT"), (0x20, 0x20, "SPACE"), (0x30, 0x39, "DEFAULT"), (0x41, 0x5A, "ALPHA"), (0x5B, 0x5F, "DEFAULT"),
                         (0x70, 0x7F, "DEFAULT KANJI"), (0x100, 0x10F, "KANJI"), (0x108, 0x10A, "DEFAULT"), (0x200, 0x20F, "DEFAULT"),
                         (0x210, 0x21F, "GREEK"), (0x220, 0x22F, "DEFAULT"), (0x300, 0x30F, "DEFAULT"), (0x320, 0x32F, "DEFAULT"), (0x1000, 0x1001, "DEFAULT")],
    "same_begin_same_end": [(0x1000, 0x1010, "KANJI"), (0x1000, 0x1020, "SYMBOL"), (0x1000, 0x1030, "NUMERIC"), (0x1008, 0x1030, "ALPHA"), (0x1018, 0x1030, "GREEK")],
}
NAMES = ["KANJI", "SYMBOL", "NUMERIC", "ALPHA", "HIRAGANA", "KATAKANA", "KANJINUMERIC", "GREEK", "CYRILLIC", "USER1", "SPACE", "DEFAULT", "DEFAULT"]


def random_def(rng):
    pool = sorted(rng.sample(range(0x20, 0x3000), 5) + [0x0, 0x10FFFE, 0xD7FE, 0xE000][:rng.randint(0, 4)])
    pool = pool + [p + 1 for p in pool if p + 1 < 0x10FFFE and p + 1 != 0xD7FF]
    lines = []
    for _ in range(rng.randint(4, 9)):
        a, b = rng.choice(pool), rng.choice(pool)
        if a > b:
            a, b = b, a
        if a < 0xD800 <= b or (0xD800 <= a <= 0xDFFF) or (0xD7FF <= b <= 0xDFFF):
            b = a
        if a == 0xD7FF:
            a = b = 0x20
        cats = " ".join(rng.sample(NAMES, rng.randint(1, 3)))
        lines.append((a, b, cats))
        if b - a >= 2 and rng.random() < 0.3:
            # a following line with the same classes inside / overlapping the previous one
            a2 = rng.randint(a, b)
            b2 = rng.randint(a2, b + (2 if rng.random() < 0.3 and not (0xD7F0 <= b <= 0xE000) and b + 2 < 0x10FFFE else 0))
            lines.append((a2, b2, cats))
    if rng.random() < 0.5:
        lines.append(lines[0])
    return lines


def write_def(path, lines):
    with open(path, "w") as f:
        f.write("# synthetic definition generated by /verif/kani/C17/spec.py\nDEFAULT 0 1 0\n\n")
        for a, b, cats in lines:
            if a == b:
                f.write("0x%04X %s # single\n" % (a, cats))
            else:
                f.write("0x%04X..0x%04X %s\n" % (a, b, cats))


def family(ctx):
    fam = list(REAL)
    d = os.path.join(ctx.scratch, "defs")
    os.makedirs(d, exist_ok=True)
    for name, lines in CORE.items():
        p = os.path.join(d, name + ".def")
        write_def(p, lines)
        fam.append(("syn_" + name, p))
    rng = random.Random(1000 + ctx.seed)
    n_rand = 3 if ctx.tier == "quick" else 40
    for i in range(n_rand):
        p = os.path.join(d, "rand%02d.def" % i)
        write_def(p, random_def(rng))
        fam.append(("syn_rand%02d_seed%d" % (i, ctx.seed), p))
    return fam


_cache = {}


def tables(ctx):
    if "t" in _cache:
        return _cache["t"]
    fam = family(ctx)
    out = ctx.run_gen(["c17"] + [p for _, p in fam])
    compiled = {}
    for line in out.splitlines():
        path, data = line.split("\t")
        compiled[path] = data
    res = []
    for name, path in fam:
        data = compiled[path]
        if data == "ERR":
            raise RuntimeError("definition %s did not load" % path)
        parts = [tuple(int(x) for x in t.split(":")) for t in data.split(",")]
        bounds = [p[0] for p in parts[1:]]
        cats = [p[2] for p in parts]
        raw = parse_def(path)
        res.append((name, path, bounds, cats, raw))
    _cache["t"] = res
    return res


def arr(name, ty, vals):
    return "    const %s: [%s; %d] = [%s];" % (name, ty, len(vals), ", ".join(str(v) for v in vals))


def params(ctx):
    L = []
    for name, path, bounds, cats, raw in tables(ctx):
        u = name.upper()
        L.append("    // %s: %d definition lines, compiled natively by the current /repo code into %d boundaries" % (
            os.path.basename(path), len(raw), len(bounds)))
        L.append(arr("B_" + u, "u32", bounds))
        L.append(arr("C_" + u, "u32", cats))
        L.append(arr("RB_" + u, "u32", [r[0] for r in raw]))
        L.append(arr("RE_" + u, "u32", [r[1] for r in raw]))
        L.append(arr("RC_" + u, "u32", [r[2] for r in raw]))
        lo = raw[0][0]
        hi = raw[-1][1] - 1
        L.append("""    #[kani::proof]
    #[kani::unwind(%d)]
    fn c17_lookup_%s() {
        check_table(&B_%s, &C_%s, &RB_%s, &RE_%s, &RC_%s, 0x%X, 0x%X);
    }
""" % (max(len(bounds), len(raw)) + 4, name, u, u, u, u, u, lo, hi))
    return {"GENERATED": "\n".join(L)}


def harnesses(ctx):
    hs = []
    for name, path, bounds, cats, raw in tables(ctx):
        hs.append(Harness(
            "c17_lookup_" + name, "dic__character_category",
            ["CharacterCategory::get_category_types (symbolic char)",
             "CharacterCategory::from_reader -> read_character_definition -> compile -> collect_boundaries (run natively on this file; its output table is the harness constant)",
             "CharacterCategory::iter (table export)"],
            "every Unicode scalar value against definition %s (%d lines -> %d boundaries)" % (os.path.basename(path), len(raw), len(bounds)),
            kernel="C17-a compiled table + bisection vs. union over raw definition lines",
            assumptions=["the definition file is one of the stated family (2 shipped files, 8 fixed overlap patterns, seeded random files)"],
            shape={"file": os.path.basename(path), "lines": len(raw), "boundaries": len(bounds)},
            timeout_s=900, mem_gb=8,
            outside=["definition files outside the family (compile runs concretely per file)"]))
    return hs


OUTSIDE = ["definitions outside the enumerated family; symbolic definitions (compile over symbolic ranges is out of CBMC's reach: BTreeSet)",
           "read_character_definition's text parsing is exercised concretely by the generator, not symbolically"]
EXPLANATION = ("Per definition file the real loader+compile run natively, and the solver compares get_category_types over the resulting table "
               "with the union-of-covering-lines oracle for all code points.")
MANIFEST = dict(
    design_ref="DESIGN.md §4 C17",
    technique="bounded model checking (Kani/CBMC/cadical) of get_category_types over tables compiled by the real code, for all code points; definition files enumerated",
    text=("For each definition file of a stated family (the two shipped char.def files, ten hand-built overlap patterns - nested, adjacent, duplicated, explicit DEFAULT lines next to gaps, "
          "reversed, single-point, touching 0 / the surrogate gap / U+10FFFE - and seeded random files) the repository's own from_reader/compile is run "
          "and the solver proves, for EVERY Unicode scalar value, that get_category_types on the produced table equals the union of the classes of all "
          "raw lines covering the code point (DEFAULT if none). A wrong compile shows up as a wrong table, a wrong bisection as a wrong lookup; either way "
          "the solver names the code point. The quantification over code points is complete; the one over definition files is an enumerated family."),
    note=("Definition files outside the family are not covered; the text parser runs concretely. Trusted: Kani/CBMC/cadical, the 10-line independent "
          "definition reader in spec.py, CharacterCategory::iter used to export the table."),
)
