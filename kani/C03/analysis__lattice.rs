// C03-a — i32 path-cost accumulation inside the documented input limits.
#[cfg(kani)]
mod verif_c03 {
    use super::*;

    //@H c03_cost_accumulation
    #[kani::proof]
    #[kani::unwind(6)]
    fn c03_cost_accumulation() {
        // one Viterbi step after `p` tokens: every token so far added a word cost and a connection cost,
        // each any i16, so the cumulative cost of the left neighbour lies in [-65536 p, 65534 p]
        let p: i64 = kani::any();
        kani::assume(p >= 0 && p <= 65535); // at most one token per byte of the normalised text (<= 65535 bytes)
        //@KF F-C03-1: p > 32767
        let total: i32 = kani::any();
        kani::assume(total as i64 <= 65534 * p && total as i64 >= -65536 * p);
        let cells: Vec<i16> = vec![kani::any(), kani::any()];
        let conn = ConnectionMatrix::verif_from_vec(cells, 2, 1);
        let mut lat = Lattice::default();
        lat.reset(2);
        let rid: u16 = kani::any();
        kani::assume(rid < 2);
        lat.ends[1].push(VNode::new(rid, total));
        let node = Node::new(1, 2, 0, 0, kani::any(), WordId::from_raw(0));
        // Rust's overflow checks (on in the build Kani verifies, and in debug builds) are the assertion here
        let (_idx, cost) = lat.connect_node(&node, &conn);
        assert!(cost != i32::MAX, "a connected path is never mistaken for 'disconnected'");
        kani::cover!(p == 32767 && total as i64 == 65534 * 32767, "largest cumulative cost inside the safe region");
        kani::cover!(total < -2_000_000_000, "very negative cumulative cost");
        std::mem::forget(lat);
        std::mem::forget(conn);
    }
    //@END

    //@H c03_index_casts
    #[kani::proof]
    #[kani::unwind(6)]
    fn c03_index_casts() {
        // the widest lattice the limits admit: 65535 characters -> size 65536; EOS sits at boundary 65535
        let conn = ConnectionMatrix::verif_from_vec(vec![0i16], 1, 1);
        let mut lat = Lattice::default();
        lat.reset(0);
        let chars: usize = kani::any();
        kani::assume(chars <= 65535);
        lat.size = chars + 1; // what reset(chars) records (rows themselves are not needed for the cast)
        let eos_pos = (lat.size - 1) as u16;
        assert!(eos_pos as usize == chars, "the end-of-sentence boundary survives the u16 cast for every admitted length");
        let i: usize = kani::any();
        kani::assume(i <= 65535);
        let idx = NodeIdx::new(chars as u16, i as u16);
        assert!(idx.end() as usize == chars && idx.index() as usize == i);
        assert!(NodeIdx::empty().end() == u16::MAX, "the 'no predecessor' marker");
        kani::cover!(chars == 65535, "longest admitted text");
        std::mem::forget(lat);
        std::mem::forget(conn);
    }
    //@END
}
