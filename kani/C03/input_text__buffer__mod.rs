// C03-c — the input length limit is enforced before any work.
#[cfg(kani)]
mod verif_c03 {
    use super::*;

    //@H c03_input_too_long
    #[kani::proof]
    #[kani::unwind(4)]
    fn c03_input_too_long() {
        assert!(MAX_LENGTH == 49149, "documented limit of the original input");
        assert!(REALLY_MAX_LENGTH == 65535, "documented limit of the rewritten input");
        const CAP: usize = 49149 + 40;
        let mut v: Vec<u8> = vec![b'a'; CAP];
        let n: usize = kani::any();
        kani::assume(n > 49149 && n <= CAP);
        unsafe { v.set_len(n) };
        let mut buf = InputBuffer::default();
        buf.original = unsafe { String::from_utf8_unchecked(v) };
        let r = buf.start_build();
        assert!(r.is_err(), "an input longer than 49,149 bytes is reported, not processed");
        assert!(buf.modified.is_empty() && buf.m2o.is_empty() && buf.state == BufferState::Clean, "and leaves the buffer reusable");
        kani::cover!(n == 49150, "first rejected length");
        std::mem::forget(r);
        std::mem::forget(buf);
    }
    //@END
}
