// C03-c — the input length limit is enforced before any work.
#[cfg(kani)]
mod verif_c03 {
    use super::*;

    //@H c03_input_too_long
    #[kani::proof]
    #[kani::unwind(4)]
    fn c03_input_too_long() {
        assert!(MAX_LENGTH == 49149, "documented limit of the original input");
        assert!(REALLY_MAX_LENGTH == 65535, "documented limit of the rewritten input");
        const CAP: usize = 49149 + 40;
        let mut v: Vec<u8> = vec![b'a'; CAP];
        let n: usize = kani::any();
        kani::assume(n > 49149 && n <= CAP);
        unsafe { v.set_len(n) };
        let mut buf = InputBuffer::default();
        buf.original = unsafe { String::from_utf8_unchecked(v) };
        let r = buf.start_build();
        assert!(r.is_err(), "an input longer than 49,149 bytes is reported, not processed");
        assert!(buf.modified.is_empty() && buf.m2o.is_empty() && buf.state == BufferState::Clean, "and leaves the buffer reusable");
        kani::cover!(n == 49150, "first rejected length");
        std::mem::forget(r);
        std::mem::forget(buf);
    }
    //@END

    /// What resolve_edits promises to commit(): it consumes the edits, writes (possibly only a prefix of) the new
    /// text and map, and RETURNS the size the rewritten text has or would have had - it stops early once that
    /// exceeds the limit.  Any returned size, any partial output.
    fn any_resolve(_s: &str, _sm: &Vec<usize>, target: &mut String, tm: &mut Vec<usize>, edits: &mut Vec<edit::ReplaceOp>) -> usize {
        edits.clear();
        target.push_str("xy");
        tm.push(0);
        tm.push(1);
        tm.push(3);
        let sz: usize = kani::any();
        unsafe { REPORTED = sz };
        sz
    }

    static mut REPORTED: usize = 0;

    //@H c03_commit_limit
    #[kani::proof]
    #[kani::unwind(6)]
    #[kani::stub(crate::input_text::buffer::edit::resolve_edits, any_resolve)]
    fn c03_commit_limit() {
        let mut buf = InputBuffer::default();
        buf.reset().push_str("abc");
        let r0 = buf.start_build();
        assert!(r0.is_ok());
        let r = buf.with_editor(|_b, mut ed| {
            ed.replace_ref(0..1, "q");
            Ok(ed)
        });
        // the size resolve_edits reported is what decides: commit() must not trust the (possibly partial) buffer
        let reported = unsafe { REPORTED };
        assert!(r.is_err() == (reported > 65535), "a rewritten text beyond 65,535 bytes is reported as an error, anything else is accepted");
        match &r {
            Ok(()) => {
                assert!(buf.current().len() == 2 && buf.m2o.len() == 3, "an accepted batch is installed");
            }
            Err(_) => {
                assert!(buf.current().len() == 3 && buf.m2o.len() == 4, "a rejected batch leaves text and map as they were");
            }
        }
        // both outcomes must be possible and must be decided by the reported size alone
        kani::cover!(r.is_ok(), "size within the limit accepted");
        kani::cover!(r.is_err(), "size beyond 65,535 reported as InputTooLong although the partial buffer is short");
        std::mem::forget(r);
        std::mem::forget(r0);
        std::mem::forget(buf);
    }
    //@END
}
