"""C03 — tokenization is total: only the arithmetic and unchecked-access kernels are decidable (DESIGN §4 C03)."""
import importlib.util
import os
import re
from runner import Harness

HERE = os.path.dirname(os.path.abspath(__file__))


def _c04():
    sp = importlib.util.spec_from_file_location("spec_C04_for_c03", os.path.join(HERE, "..", "C04", "spec.py"))
    m = importlib.util.module_from_spec(sp)
    sp.loader.exec_module(m)
    return m


C04 = _c04()
TRIE_SETS = ("multibyte",)


def _c08():
    sp = importlib.util.spec_from_file_location("spec_C08_for_c03", os.path.join(HERE, "..", "C08", "spec.py"))
    m = importlib.util.module_from_spec(sp)
    sp.loader.exec_module(m)
    return m


C08 = _c08()


def _c13():
    sp = importlib.util.spec_from_file_location("spec_C13_for_c03", os.path.join(HERE, "..", "C13", "spec.py"))
    m = importlib.util.module_from_spec(sp)
    sp.loader.exec_module(m)
    return m


C13 = _c13()
# edit batches with unchanged text before AND after the edit: the size resolve_edits reports (what commit compares with the limit)
SIZE_BATCHES = ("start_longer", "mid_delete")


def generate(ctx):
    tpl = open(os.path.join(HERE, "..", "C04", "dic__lexicon__trie.rs")).read().replace("mod verif_c04", "mod verif_c03")
    p = C04.params(ctx)
    gen = p["GENERATED"]
    # keep only the chosen key sets
    keep = []
    for blk in re.split(r"(?=    // key set )", gen):
        m = re.match(r"    // key set (\w+):", blk)
        if m and m.group(1) in TRIE_SETS:
            keep.append(blk.replace("c04_lookup_", "c03_unchecked_reads_"))
    edit_tpl = open(os.path.join(HERE, "..", "C08", "input_text__buffer__edit.rs")).read().replace("/*@MOD@*/verif_c08", "verif_c03")
    gens = [C08.gen_shape(n, s, e)[0].replace("c08_batch_", "c03_batch_size_") for (n, s, e, t) in C08.SHAPES if n in SIZE_BATCHES]
    lat_tpl = open(os.path.join(HERE, "..", "C13", "analysis__stateful_tokenizer.rs")).read()
    lat_tpl = lat_tpl.replace("/*@LATMOD@*/verif_c13_lat", "verif_c03_lat").replace("/*@LATNAME@*/c13_lattice_providers", "c03_lattice_total").replace("/*@PROVNAME@*/c13_provide_oovs_recorded", "c03_provide_oovs_recorded")
    return {"analysis__stateful_tokenizer": lat_tpl,
            "input_text__buffer__edit": edit_tpl.replace("/*@GENERATED@*/", "\n\n".join(gens)),
            "dic__lexicon__trie": tpl.replace("/*@GENERATED@*/", "\n".join(keep)).replace("/*@LEN@*/5", str(p["LEN"]))}


def harnesses(ctx):
    q = ctx.tier == "quick"
    hs = [
        Harness("c03_cost_accumulation", "analysis__lattice", ["Lattice::connect_node", "ConnectionMatrix::cost"],
                "one Viterbi step after p <= 65535 tokens; the left neighbour's cumulative cost anywhere in [-65536 p, 65534 p]; arbitrary i16 word and connection cost",
                kernel="C03-a the i32 path cost cannot overflow (nor collide with the 'disconnected' marker) within the documented input limits",
                assumptions=["p bounds the number of tokens before the step (<= bytes of the normalised text)"], fs_array=True, timeout_s=900, mem_gb=12),
        Harness("c03_index_casts", "analysis__lattice", ["NodeIdx::new", "Lattice (size -> u16 boundary cast of connect_eos)"],
                "every text length <= 65535 characters and every node index <= 65535", kernel="C03-c u16 casts of boundaries and node indices are lossless inside the limits",
                fs_array=True, timeout_s=600, mem_gb=8),
        Harness("c03_matrix_index", "dic__connect", ["ConnectionMatrix::index", "ConnectionMatrix::cost (get_unchecked)"],
                "4x3 matrix of arbitrary cells, every id pair below the dimensions (two pairs for injectivity)",
                kernel="C03-b unchecked matrix read in bounds and injective for ids validated at load (C06/C20)", timeout_s=600, mem_gb=8),
        Harness("c03_input_too_long", "input_text__buffer__mod", ["InputBuffer::start_build", "MAX_LENGTH", "REALLY_MAX_LENGTH"],
                "original texts of 49,150..49,189 bytes", kernel="C03-c inputs beyond the limit yield an error value before any work; the limits are the documented ones",
                timeout_s=900, mem_gb=12, outside=["accepted lengths (a String of symbolic length up to 49,149 through start_build is out of reach)"]),
        Harness("c03_commit_limit", "input_text__buffer__mod", ["InputBuffer::with_editor", "InputBuffer::commit", "InputBuffer::make_editor", "InputEditor::replace_ref"],
                "one committed edit batch; resolve_edits replaced by a stub of its contract: any reported size, partial output",
                kernel="C03-c the limit on the rewritten text is enforced on every commit: error value beyond 65,535 bytes, buffer unchanged; accepted batch installed",
                stubs=["input_text::buffer::edit::resolve_edits -> consumes the edits, writes a short text/map, returns ANY size (its real behaviour is decided in C08)"],
                timeout_s=900, mem_gb=12),
        Harness("c03_created_shift", "analysis__created", ["CreatedWords::single", "CreatedWords::has_word", "CreatedWords::add_word"], "every i64 length >= 1",
                kernel="C03-c no shift overflow in the created-length set", timeout_s=600, mem_gb=8),
    ]
    hs.append(C13.prov_harness("c03_provide_oovs_recorded", "verif_c03_lat",
                               "C03-b a word counted as created at a position is a node in the lattice (the count is what suppresses the fallback provider and the disconnection error)"))
    hs.append(C13.lat_harness("c03_lattice_total", "verif_c03_lat",
                              "C03-b every reachable position gets a node and the text a path: the fallback provider is asked again wherever nothing was created (symbolic character classes)"))
    for (n, s, e, t) in C08.SHAPES:
        if n in SIZE_BATCHES:
            hs.append(Harness("c03_batch_size_" + n, "input_text__buffer__edit", ["resolve_edits", "add_replace"],
                              "edit batch %r %s over ANY previous offset map satisfying the invariant" % (s, [(a, b, r) for (a, b, r, k) in e]),
                              kernel="C03-c the size resolve_edits reports - the number commit compares with the 65,535-byte limit - is the length of the whole rewritten text "
                                     "(unchanged text before and after the edits included); the C08-b harness for this shape",
                              assumptions=["edits sorted, non-overlapping, on character boundaries"], timeout_s=900, mem_gb=12))
    for name, (units, table, keys) in C04.compiled(ctx).items():
        if name not in TRIE_SETS:
            continue
        hs.append(Harness("c03_unchecked_reads_" + name, "dic__lexicon__trie",
                          ["TrieEntryIter::next / get (get_unchecked)", "Trie::get (get_unchecked)", "WordIdTable::entries (raw pointer reads)", "WordIdIter::next (read_unaligned)"],
                          "every byte string of <= %d bytes x every offset against the builder-produced tables of key set %s" % (5 if q else 6, name),
                          kernel="C03-b unchecked trie-unit and word-id-table reads stay inside the arrays for every text (CBMC pointer checks + the repository's debug_assert!s)",
                          timeout_s=1500, mem_gb=12))
    return hs


OUTSIDE = ["'never panics' for the whole pipeline: plugin code, OOV fallback reaching every position, accessor safety on returned morphemes, behaviour at 49,149 / 65,535 observed end to end",
           "RegexOovProvider with a pattern matching the empty string reaches CreatedWords::single(0) (debug_assert) - read, not solver-reachable"]
EXPLANATION = "Arithmetic and unchecked-access kernels only."
MANIFEST = dict(
    design_ref="DESIGN.md §4 C03",
    technique="bounded model checking (Kani/CBMC/cadical) with the compiler's overflow checks and CBMC's pointer checks as assertions: symbolic cumulative costs through Lattice::connect_node, symbolic ids through ConnectionMatrix, all short texts through the trie/table readers",
    text=("Kernel-level claim only ('never panics' for the whole pipeline is not decidable here): (a) the i32 cost accumulation of one Viterbi step cannot overflow or collide with the "
          "'disconnected' marker after up to 32,767 tokens with arbitrary i16 costs (beyond that: listed finding F-C03-1); (b) the unchecked connection-matrix, trie-unit and word-id-table reads "
          "stay inside their arrays for validated ids and for every short text; (c) u16 casts of boundaries/indices are lossless for every admitted length, the created-length set never shifts out "
          "of range, inputs beyond 49,149 bytes yield an error value before any work, a committed edit batch whose reported size exceeds 65,535 bytes is an error that leaves the buffer unchanged, and the size resolve_edits reports is the length of the whole rewritten text (two batch shapes, any previous offset map)."),
    note="c03_lattice_total (LatticeBuilder::build_lattice on a 2-character text with symbolic character classes always yields a path when the fallback provider is configured last) is thorough-only and optional: measured out of memory at 24 GB. Overflow and pointer checks are the assertions (Kani verifies the overflow-checks=on, debug-assertions=on build). Trusted: Kani/CBMC/cadical.",
)
