// C03-b — the unchecked connection-matrix read stays in bounds for ids validated at load.
#[cfg(kani)]
mod verif_c03 {
    use super::*;

    //@H c03_matrix_index
    #[kani::proof]
    #[kani::unwind(16)]
    fn c03_matrix_index() {
        const NL: usize = 4;
        const NR: usize = 3;
        let mut cells: Vec<i16> = Vec::with_capacity(NL * NR);
        for _ in 0..NL * NR {
            cells.push(kani::any());
        }
        let m = ConnectionMatrix::verif_from_vec(cells.clone(), NL, NR);
        let l: u16 = kani::any();
        let r: u16 = kani::any();
        kani::assume((l as usize) < NL && (r as usize) < NR);
        let i = m.index(l, r);
        assert!(i < NL * NR, "index inside the matrix");
        let l2: u16 = kani::any();
        let r2: u16 = kani::any();
        kani::assume((l2 as usize) < NL && (r2 as usize) < NR);
        if l2 != l || r2 != r {
            assert!(m.index(l2, r2) != i, "distinct id pairs address distinct cells");
        }
        // the unchecked read (CBMC checks the pointer) returns that cell
        assert!(m.cost(l, r) == cells[r as usize * NL + l as usize]);
        assert!(m.num_left() == NL && m.num_right() == NR);
        kani::cover!(l as usize == NL - 1 && r as usize == NR - 1, "last cell");
        std::mem::forget(m);
        std::mem::forget(cells);
    }
    //@END
}
