// C03-c — the created-length bit set never shifts out of range.
#[cfg(kani)]
mod verif_c03 {
    use super::*;

    //@H c03_created_shift
    #[kani::proof]
    fn c03_created_shift() {
        let l: i64 = kani::any();
        kani::assume(l >= 1); // lengths of created words are positive
        let w = CreatedWords::single(l); // shift overflow would be reported by the compiler-inserted check
        assert!(w.not_empty());
        let q: i64 = kani::any();
        kani::assume(q >= 1);
        let _ = w.has_word(q);
        let _ = w.add_word(q);
        kani::cover!(l == i64::MAX, "largest length");
        kani::cover!(l == 64, "first length sharing the top bit");
    }
    //@END
}
