// C12 — merging a user dictionary's part-of-speech table: its i-th entry lands at (number of POS before the merge) + i, which is the
// offset JapaneseDictionary::merge_user_dictionary records for the POS rebasing of that dictionary's words (c12_pos_rebase_*).
#[cfg(kani)]
mod verif_c12 {
    use super::*;
    use crate::dic::connect::ConnectionMatrix;

    /// a 6-level part of speech whose first level is the one-letter tag `c`
    fn pos(c: u8) -> Vec<String> {
        let mut v = Vec::with_capacity(POS_DEPTH);
        let mut s = String::with_capacity(1);
        s.push(c as char);
        v.push(s);
        for _ in 1..POS_DEPTH {
            v.push(String::from("*"));
        }
        v
    }

    fn tag() -> u8 {
        let c: u8 = kani::any();
        kani::assume(c >= b'a' && c <= b'e');
        c
    }

    fn empty_grammar() -> Grammar<'static> {
        Grammar::verif_with_matrix(ConnectionMatrix::verif_from_vec(Vec::new(), 0, 0))
    }

    //@H c12_grammar_merge_contiguous
    #[kani::proof]
    #[kani::unwind(8)]
    fn c12_grammar_merge_contiguous() {
        // merged grammar so far: two system POS and one POS registered by a plugin or an earlier user dictionary
        // (their tags are concrete - only the user dictionary's tags need to vary to produce every equality pattern)
        let (s0, s1, p0) = (b'a', b'b', b'c');
        let mut g = empty_grammar();
        g.pos_list.push(pos(s0));
        g.pos_list.push(pos(s1));
        g.pos_list.push(pos(p0));
        // the user dictionary's own POS table: any tags - equal to a system POS, to the plugin's POS, or to each other
        let (u0, u1) = (tag(), tag());
        let mut user = empty_grammar();
        user.pos_list.push(pos(u0));
        user.pos_list.push(pos(u1));
        let offset = g.pos_list.len(); // recorded by merge_user_dictionary (LexiconSet::append) before the merge
        g.merge(user);
        assert!(g.pos_list.len() == offset + 2, "every POS of the user dictionary is appended");
        assert!(g.pos_list[offset][0].as_bytes()[0] == u0 && g.pos_list[offset + 1][0].as_bytes()[0] == u1, "the i-th POS of the user dictionary is found at the recorded offset + i");
        assert!(g.pos_list[0][0].as_bytes()[0] == s0 && g.pos_list[1][0].as_bytes()[0] == s1 && g.pos_list[2][0].as_bytes()[0] == p0, "earlier POS keep their ids");
        assert!(g.pos_list[offset].len() == POS_DEPTH && g.pos_list[offset + 1].len() == POS_DEPTH);
        kani::cover!(u0 == p0 && u1 != p0, "the user dictionary declares a POS a plugin / an earlier user dictionary already registered");
        kani::cover!(u0 == s1, "the user dictionary's table repeats a system POS");
        kani::cover!(u0 == u1, "duplicate inside the user dictionary's table");
        std::mem::forget(g);
    }
    //@END
}
