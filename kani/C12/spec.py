"""C12 — layered user dictionaries keep ids, parts of speech and references straight (DESIGN §4 C12)."""
from runner import Harness


def params(ctx):
    return {"NREF": 2} if ctx.tier == "quick" else {"NREF": 3}


def harnesses(ctx):
    q = ctx.tier == "quick"
    return [
        Harness("c12_wordid_roundtrip", "dic__word_id", ["WordId::new", "WordId::dic", "WordId::word", "WordId::is_oov/is_user/is_system", "WordId::from_raw/as_raw"],
                "every dictionary number <= 15 and word number < 2^28 (two independent ids for injectivity)",
                kernel="C12-a id packing (also the rule of Morpheme::dictionary_id: -1 exactly for dictionary 15)", timeout_s=600, mem_gb=8),
        Harness("c12_wordid_checked", "dic__word_id", ["WordId::checked"], "every (u8, u32) pair",
                kernel="C12-a checked construction rejects exactly what does not fit", stubs=["alloc::fmt::format -> empty string"], timeout_s=600, mem_gb=8),
        Harness("c12_wordid_oov", "dic__word_id", ["WordId::oov", "WordId::is_special"], "every 16-bit part-of-speech id",
                kernel="C12-a OOV ids", timeout_s=600, mem_gb=8),
        Harness("c12_append_limit", "dic__lexicon_set", ["LexiconSet::new", "LexiconSet::append", "LexiconSet::is_full", "Lexicon::set_dic_id"],
                "15 (empty) user lexicons appended in sequence to a system lexicon, arbitrary POS offset",
                kernel="C12-b the 15th user dictionary is rejected; dictionary number = position", fs_array=True, timeout_s=900, mem_gb=12,
                assumptions=["lexicons are empty (their content does not influence append)"]),
        Harness("c12_update_dict_id", "dic__lexicon_set", ["LexiconSet::update_dict_id", "WordId::checked"],
                "%d arbitrary raw u32 references, owning dictionary 0..14" % (2 if q else 3),
                kernel="C12-c reference re-stamping: system references untouched, others point into the owning dictionary",
                stubs=["alloc::fmt::format -> empty string"], timeout_s=900 if q else 2400, mem_gb=8 if q else 16),
        Harness("c12_grammar_merge_contiguous", "dic__grammar", ["Grammar::merge"],
                "merged grammar of 3 POS (2 system + 1 registered by a plugin / earlier dictionary; tags a, b, c), user table of 2 POS with symbolic one-letter tags in a..e: every equality pattern between the user table and the earlier POS",
                kernel="C12-c the offset recorded at merge time is where the user dictionary's POS table lands, entry by entry - also when it repeats POS that already exist",
                timeout_s=900, mem_gb=24),
    ] + [
        Harness("c12_pos_rebase_d%d" % d, "dic__lexicon_set",
                ["LexiconSet::get_word_info_subset", "Lexicon::get_word_info", "WordInfos::get_word_info", "WordInfos::parse_word_info",
                 "WordInfoParser::parse (subset POS_ID)", "string_length_parser", "skip_u16_string"],
                "word of dictionary %d in a stack of system + 2 user dictionaries over a one-word image; stored POS id, number of system POS and both recorded offsets symbolic (<= 32767)" % d,
                kernel="C12-c POS rebasing: id - num_system_pos + offset[dictionary], system words and system ids unchanged",
                assumptions=["offsets recorded at merge time satisfy num_system_pos <= off1 <= off2 <= 32767", "rebased id fits u16 (documented POS limit)",
                             "dictionary number concrete per harness (0, 1, 2)"],
                stubs=["alloc::fmt::format -> empty string"], fs_array=True, timeout_s=1200, mem_gb=16,
                outside=["that merge_user_dictionary records pos_list.len() before Grammar::merge (two lines, by reading); Grammar::merge itself: c12_grammar_merge_contiguous"])
        for d in (0, 1, 2)
    ] + [
        Harness("c12_split_restamp_" + nm, "dic__lexicon_set",
                ["LexiconSet::get_word_info_subset", "LexiconSet::update_dict_id", "WordInfos::get_word_info", "WordInfoParser::parse", "u32_wid_array_parser", "skip_wid_array"],
                "word of user dictionary %d whose A split, B split and word structure each hold one arbitrary raw reference; requested lists: %s" % (d, req),
                kernel="C12-c each requested reference list of a user-dictionary word is re-stamped with the owning dictionary (system references unchanged)",
                assumptions=["dictionary number and requested lists concrete per harness", "arbitrary raw u32 references"], stubs=["alloc::fmt::format -> empty string"],
                fs_array=True, timeout_s=1500, mem_gb=16)
        for nm, d, req in (("b_only_d2", 2, "{B}"), ("all_d2", 2, "{A, B, structure}"), ("a_only_d1", 1, "{A}"))
    ]


OUTSIDE = ["the offsets actually recorded by JapaneseDictionary::merge_user_dictionary (loader + plugins)", "the builder's preload_pos / write_pos_table",
           "split references resolved by the builder (resolve.rs)", "OOV plugins' userPOS handling"]
EXPLANATION = "Id packing for all ids, the 15-dictionary limit, reference re-stamping and POS rebasing arithmetic on crafted one-word lexicons."
MANIFEST = dict(
    design_ref="DESIGN.md §4 C12",
    technique="bounded model checking (Kani/CBMC/cadical): bit-vector facts about WordId for all ids; LexiconSet::append/update_dict_id/get_word_info_subset on crafted lexicons with symbolic ids, offsets and counts",
    text=("Solver-decided for all values: (a) WordId packing is injective and round-trips for every dictionary number <= 15 and 28-bit word number, checked() rejects exactly the rest, "
          "dictionary 15 <=> OOV (the -1 of Morpheme::dictionary_id); (b) LexiconSet accepts exactly 14 user dictionaries and stamps each with its position; "
          "(c) split/word-structure references are re-stamped with the owning dictionary unless they point to the system dictionary, and a user word's POS id is rebased by "
          "id - num_system_pos + offset[dictionary] while system words/ids are unchanged. Grammar::merge appends a user dictionary's POS table entry by entry at the recorded offset for every equality pattern with POS that already exist (plugins, earlier dictionaries). That merge_user_dictionary records the offset before merging is read, not decided."),
    note="Crafted one-word lexicon images; offsets assumed ordered as merge_user_dictionary records them. Trusted: Kani/CBMC/cadical.",
)
