// C12 — word id packing: 4 bits of dictionary number (15 = OOV) + 28 bits of word number.
#[cfg(kani)]
mod verif_c12 {
    use super::*;

    fn stub_format(_a: std::fmt::Arguments<'_>) -> String {
        String::new()
    }

    //@H c12_wordid_roundtrip
    #[kani::proof]
    fn c12_wordid_roundtrip() {
        let dic: u8 = kani::any();
        let word: u32 = kani::any();
        kani::assume(dic <= 15 && word <= WordId::MAX_WORD);
        let id = WordId::new(dic, word);
        assert!(id.dic() == dic && id.word() == word, "parts survive packing");
        assert!(WordId::from_raw(id.as_raw()) == id);
        assert!(id.is_oov() == (dic == 15), "dictionary 15 is reserved for OOV");
        assert!(id.is_system() == (dic == 0));
        assert!(id.is_user() == (dic >= 1 && dic <= 14));
        // what Morpheme::dictionary_id reports: -1 exactly for OOV, the dictionary number otherwise
        let reported: i32 = if id.is_oov() { -1 } else { id.dic() as i32 };
        assert!((reported == -1) == (dic == 15) && (dic == 15 || reported == dic as i32));
        // distinct (dic, word) pairs get distinct ids
        let dic2: u8 = kani::any();
        let word2: u32 = kani::any();
        kani::assume(dic2 <= 15 && word2 <= WordId::MAX_WORD);
        if dic2 != dic || word2 != word {
            assert!(WordId::new(dic2, word2) != id, "packing is injective");
        }
        kani::cover!(dic == 14 && word == WordId::MAX_WORD, "largest user word id");
        kani::cover!(dic == 15, "oov");
    }
    //@END

    //@H c12_wordid_checked
    #[kani::proof]
    #[kani::stub(alloc::fmt::format, stub_format)]
    fn c12_wordid_checked() {
        let dic: u8 = kani::any();
        let word: u32 = kani::any();
        let r = WordId::checked(dic, word);
        let valid = dic <= 15 && word <= WordId::MAX_WORD;
        match &r {
            Ok(id) => {
                assert!(valid, "checked() accepts only ids that fit 4 + 28 bits");
                assert!(id.dic() == dic && id.word() == word);
            }
            Err(_) => assert!(!valid, "checked() accepts every id that fits"),
        }
        kani::cover!(r.is_err() && dic == 16, "dictionary 16 rejected");
        kani::cover!(r.is_err() && word == WordId::MAX_WORD + 1, "word 2^28 rejected");
        kani::cover!(r.is_ok() && word == WordId::MAX_WORD, "word 2^28-1 accepted");
        std::mem::forget(r);
    }
    //@END

    //@H c12_wordid_oov
    #[kani::proof]
    fn c12_wordid_oov() {
        let pos: u32 = kani::any();
        kani::assume(pos <= u16::MAX as u32);
        let id = WordId::oov(pos);
        assert!(id.is_oov() && !id.is_user() && !id.is_system());
        assert!(id.word() == pos, "an OOV id carries its part-of-speech id");
        assert!(!WordId::EOS.is_system() && WordId::EOS.is_oov() && WordId::BOS.is_oov());
        assert!(WordId::EOS.is_special() && WordId::BOS.is_special() && !WordId::INVALID.is_special());
        assert!(!id.is_special(), "no OOV word with a 16-bit POS id collides with BOS/EOS");
        kani::cover!(pos == 65535, "largest pos id");
    }
    //@END
}
