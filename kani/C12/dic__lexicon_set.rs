// C12 — layering of user dictionaries: the 15-dictionary limit, id stamping, reference re-stamping, POS rebasing.
#[cfg(kani)]
mod verif_c12 {
    use super::*;

    fn stub_format(_a: std::fmt::Arguments<'_>) -> String {
        String::new()
    }

    //@H c12_append_limit
    #[kani::proof]
    #[kani::unwind(18)]
    fn c12_append_limit() {
        let mut set = LexiconSet::new(Lexicon::verif_empty(), 5);
        let n: usize = 15; // concrete: a symbolic count makes the Vec<Lexicon> growth intractable (measured: > 12 GB)
        let off: usize = kani::any();
        for i in 0..15usize {
            let r = set.append(Lexicon::verif_empty(), off);
            // system + 14 user dictionaries fit, the 15th user dictionary does not
            assert!(r.is_ok() == (i < 14), "exactly 14 user dictionaries are accepted");
            assert!(set.is_full() == (i >= 13));
        }
        let expect = if n > 14 { 15 } else { n + 1 };
        assert!(set.lexicons.len() == expect && set.pos_offsets.len() == expect);
        for k in 0..15usize {
            if k < expect {
                assert!(set.lexicons[k].verif_lex_id() as usize == k, "dictionary number = position in the stack");
                if k > 0 {
                    assert!(set.pos_offsets[k] == off);
                }
            }
        }
        assert!(set.is_full() == (expect == 15));
        kani::cover!(off == 0, "offset 0");
        kani::cover!(off > 40000, "large offset");
        std::mem::forget(set);
    }
    //@END

    //@H c12_update_dict_id
    #[kani::proof]
    #[kani::unwind(5)]
    #[kani::stub(alloc::fmt::format, stub_format)]
    fn c12_update_dict_id() {
        let d: u8 = kani::any();
        kani::assume(d <= 14);
        const N: usize = /*@NREF@*/2;
        let mut before = [WordId::from_raw(0); N];
        let mut v: Vec<WordId> = Vec::with_capacity(N);
        for i in 0..N {
            before[i] = WordId::from_raw(kani::any());
            v.push(before[i]);
        }
        let r = LexiconSet::update_dict_id(&mut v, d);
        assert!(r.is_ok(), "re-stamping with a dictionary number below 15 cannot fail");
        assert!(v.len() == N);
        for i in 0..N {
            assert!(v[i].word() == before[i].word(), "word number untouched");
            if before[i].dic() == 0 {
                assert!(v[i] == before[i], "references into the system dictionary are unchanged");
            } else {
                assert!(v[i].dic() == d, "other references point into the owning dictionary");
            }
        }
        kani::cover!(before[0].dic() == 0 && before[1].dic() == 1 && d == 7, "mixed references in dictionary 7");
        kani::cover!(d == 0 && before[N - 1].dic() == 1, "system dictionary with a non-zero reference");
        std::mem::forget(r);
        std::mem::forget(v);
    }
    //@END

    // One-word lexicon image: [offset table: u32 = 4][record]. The record has empty strings and
    // arrays; head word length, POS id and dictionary-form id are symbolic.
    // layout: surface len(0) | head_word_length(1 byte <127) | pos_id u16 | norm len(0) | dic_form i32 | reading len(0) | 4 x array len(0)
    /// References of a user-dictionary word are re-stamped per list, and only the requested lists are loaded.
    fn split_restamp(d: u8, which: u8) {
        let a: u32 = kani::any();
        let b: u32 = kani::any();
        let w: u32 = kani::any();
        let (ab, bb, wb) = (a.to_le_bytes(), b.to_le_bytes(), w.to_le_bytes());
        let img: &'static [u8] = Box::leak(Box::new([
            4u8, 0, 0, 0,
            0, 1, 0, 0, 0, 0xff, 0xff, 0xff, 0xff, 0, // surface "" | key length 1 | pos 0 | norm "" | dic form -1 | reading ""
            1, ab[0], ab[1], ab[2], ab[3], // A split: one reference
            1, bb[0], bb[1], bb[2], bb[3], // B split: one reference
            1, wb[0], wb[1], wb[2], wb[3], // word structure: one reference
            0,
        ]));
        let mut set = LexiconSet::new(Lexicon::verif_with_infos(img, 1, false), 3);
        let _ = set.append(Lexicon::verif_with_infos(img, 1, false), 3);
        let _ = set.append(Lexicon::verif_with_infos(img, 1, false), 3);
        // the requested lists are concrete per harness (a symbolic request multiplies the parser paths: > 25 min)
        let subset = match which {
            0 => InfoSubset::SPLIT_A,
            1 => InfoSubset::SPLIT_B,
            2 => InfoSubset::WORD_STRUCTURE,
            _ => InfoSubset::SPLIT_A | InfoSubset::SPLIT_B | InfoSubset::WORD_STRUCTURE,
        };
        let r = set.get_word_info_subset(WordId::new(d, 0), subset);
        assert!(r.is_ok());
        let want = |raw: u32| -> WordId {
            let id = WordId::from_raw(raw);
            if id.dic() == 0 { id } else { WordId::new(d, id.word()) }
        };
        if let Ok(wi) = &r {
            if subset.contains(InfoSubset::SPLIT_A) {
                assert!(wi.a_unit_split().len() == 1 && wi.a_unit_split()[0] == want(a), "A-split reference: system words unchanged, others point into the owning dictionary");
            }
            if subset.contains(InfoSubset::SPLIT_B) {
                assert!(wi.b_unit_split().len() == 1 && wi.b_unit_split()[0] == want(b), "B-split reference re-stamped with the owning dictionary");
            }
            if subset.contains(InfoSubset::WORD_STRUCTURE) {
                assert!(wi.word_structure().len() == 1 && wi.word_structure()[0] == want(w), "word-structure reference re-stamped with the owning dictionary");
            }
        }
        kani::cover!(WordId::from_raw(b).dic() == 1, "B-split reference written as U-reference");
        kani::cover!(WordId::from_raw(a).dic() == 0 && WordId::from_raw(w).dic() == 1, "mixed system / own-dictionary references");
        std::mem::forget(r);
        std::mem::forget(set);
    }

    //@H c12_split_restamp_b_only_d2
    #[kani::proof]
    #[kani::unwind(20)]
    #[kani::stub(alloc::fmt::format, stub_format)]
    fn c12_split_restamp_b_only_d2() {
        split_restamp(2, 1);
    }
    //@END

    //@H c12_split_restamp_all_d2
    #[kani::proof]
    #[kani::unwind(20)]
    #[kani::stub(alloc::fmt::format, stub_format)]
    fn c12_split_restamp_all_d2() {
        split_restamp(2, 3);
    }
    //@END

    //@H c12_split_restamp_a_only_d1
    #[kani::proof]
    #[kani::unwind(20)]
    #[kani::stub(alloc::fmt::format, stub_format)]
    fn c12_split_restamp_a_only_d1() {
        split_restamp(1, 0);
    }
    //@END

    /// `d` is concrete per harness: a symbolic dictionary number makes `lexicons[d]` (and with it
    /// every byte the parser reads) a symbolic-pointer access (measured: 600 s instead of 30 s)
    fn pos_rebase(d: u8) {
        let pos: u16 = kani::any();
        // every byte but the POS id is concrete, so all parser offsets stay concrete
        let img: &'static [u8] = Box::leak(Box::new([
            4u8, 0, 0, 0, // offset table: word 0 -> record at 4
            0, 1, pos as u8, (pos >> 8) as u8, 0, 0xff, 0xff, 0xff, 0xff, 0, 0, 0, 0, 0,
        ]));
        let nsys: usize = kani::any();
        kani::assume(nsys <= 32767);
        let mut set = LexiconSet::new(Lexicon::verif_with_infos(img, 1, false), nsys);
        let off1: usize = kani::any();
        let off2: usize = kani::any();
        // offsets recorded at merge time are the number of POS already registered: >= nsys, and the POS table holds < 2^15 entries
        kani::assume(off1 >= nsys && off1 <= 32767 && off2 >= off1 && off2 <= 32767);
        let _ = set.append(Lexicon::verif_with_infos(img, 1, false), off1);
        const USERS: u8 = 2;
        let _ = set.append(Lexicon::verif_with_infos(img, 1, false), off2);
        assert!(d <= USERS);
        kani::assume(pos <= 32767);
        // a user dictionary's own POS ids continue after the system ones: pos - nsys + off fits
        kani::assume(d == 0 || (pos as usize) < nsys || (pos as usize - nsys) + off2 <= 65535);
        let r = set.get_word_info_subset(WordId::new(d, 0), InfoSubset::POS_ID);
        assert!(r.is_ok());
        if let Ok(wi) = &r {
            let got = wi.pos_id() as usize;
            let off = if d == 1 { off1 } else { off2 };
            if d == 0 || (pos as usize) < nsys {
                assert!(got == pos as usize, "system words and system POS ids are reported unchanged");
            } else {
                assert!(got == pos as usize - nsys + off, "user POS id rebased by the offset recorded for its dictionary");
            }
        }
        kani::cover!((pos as usize) >= nsys && off2 > off1 && off1 > nsys, "POS id beyond the system ones, plugin POS registered before the dictionaries");
        kani::cover!((pos as usize) < nsys && nsys > 0, "POS id among the system ones");
        std::mem::forget(r);
        std::mem::forget(set);
    }

    //@H c12_pos_rebase_d0
    #[kani::proof]
    #[kani::unwind(20)]
    #[kani::stub(alloc::fmt::format, stub_format)]
    fn c12_pos_rebase_d0() {
        pos_rebase(0);
    }
    //@END

    //@H c12_pos_rebase_d1
    #[kani::proof]
    #[kani::unwind(20)]
    #[kani::stub(alloc::fmt::format, stub_format)]
    fn c12_pos_rebase_d1() {
        pos_rebase(1);
    }
    //@END

    //@H c12_pos_rebase_d2
    #[kani::proof]
    #[kani::unwind(20)]
    #[kani::stub(alloc::fmt::format, stub_format)]
    fn c12_pos_rebase_d2() {
        pos_rebase(2);
    }
    //@END
}
