"""C14 — path-rewrite plugins only merge adjacent tokens: the two merge kernels (DESIGN §4 C14)."""
from runner import Harness

RANGES = [(0, 2), (1, 3), (0, 3), (1, 2)]

TPL_NODES = '''
    //@H {p}_concat_nodes_{b}_{e}
    #[kani::proof]
    #[kani::unwind(8)]
    #[kani::stub(alloc::fmt::format, stub_format)]
    fn {p}_concat_nodes_{b}_{e}() {{
        let y = sym();
        let path = path_of(&y);
        let with_norm: bool = kani::any();
        let norm = if with_norm {{ Some(String::from("NRM")) }} else {{ None }};
        let r = concat_nodes(path, {b}, {e}, norm);
        assert!(r.is_ok(), "a non-empty range of an existing path is always merged");
        if let Ok(p) = &r {{
            assert!(p.len() == 3 - ({e} - {b}) + 1, "exactly the merged tokens are replaced by one");
            for i in 0..{b} {{
                assert!(same_node(&p[i], &y, i), "tokens before the merge are reported unchanged");
            }}
            for i in {e}..3 {{
                assert!(same_node(&p[i - ({e} - {b}) + 1], &y, i), "tokens after the merge are reported unchanged");
            }}
            let m = &p[{b}];
            check_merged(m, &y, {b}, {e});
            assert!(m.word_info().pos_id() == y.pos[{b}], "concat_nodes: part of speech of the first merged token");
            let cuts = [0usize, 2, 3, 6];
            let n = m.word_info().borrow_data().normalized_form.as_bytes();
            if with_norm {{
                assert!(n.len() == 3 && n[0] == b'N' && n[1] == b'R' && n[2] == b'M', "the given normalised form is used");
            }} else {{
                assert!(n.len() == cuts[{e}] - cuts[{b}], "normalised form is the concatenation of the merged ones");
                let mut k = 0;
                while k < n.len() {{
                    assert!(n[k] == y.s[cuts[{b}] + k]);
                    k += 1;
                }}
            }}
            let d = m.word_info().borrow_data().dictionary_form.as_bytes();
            let rd = m.word_info().borrow_data().reading_form.as_bytes();
            assert!(d.len() == {e} - {b} && rd.len() == {e} - {b});
            for i in {b}..{e} {{
                assert!(d[i - {b}] == y.s[cuts[i]], "dictionary form is the concatenation of the merged ones");
                assert!(rd[i - {b}] == y.s[cuts[i + 1] - 1], "reading is the concatenation of the merged ones");
            }}
            assert!(m.word_id() == WordId::INVALID);
        }}
        kani::cover!(with_norm, "explicit normalised form");
        kani::cover!(!with_norm && y.bb[{e}] - y.bb[{b}] != [0u16, 2, 3, 6][{e}] - [0u16, 2, 3, 6][{b}], "dictionary-side surface length differs from the matched text");
        kani::cover!(y.cb[{b}] > 0 && y.bb[{b}] > y.cb[{b}], "multi-byte text before the merge");
        std::mem::forget(r);
        std::mem::forget(y);
    }}
    //@END
'''

TPL_OOV = '''
    //@H {p}_concat_oov_nodes_{b}_{e}
    #[kani::proof]
    #[kani::unwind(8)]
    #[kani::stub(alloc::fmt::format, stub_format)]
    fn {p}_concat_oov_nodes_{b}_{e}() {{
        let y = sym();
        let path = path_of(&y);
        let pos: u16 = kani::any();
        let r = concat_oov_nodes(path, {b}, {e}, pos);
        assert!(r.is_ok(), "a non-empty range of an existing path is always merged");
        if let Ok(p) = &r {{
            assert!(p.len() == 3 - ({e} - {b}) + 1, "exactly the merged tokens are replaced by one");
            for i in 0..{b} {{
                assert!(same_node(&p[i], &y, i), "tokens before the merge are reported unchanged");
            }}
            for i in {e}..3 {{
                assert!(same_node(&p[i - ({e} - {b}) + 1], &y, i), "tokens after the merge are reported unchanged");
            }}
            let m = &p[{b}];
            check_merged(m, &y, {b}, {e});
            assert!(m.word_info().pos_id() == pos, "concat_oov_nodes: the part of speech the plugin prescribes");
            let s = m.word_info().surface().as_bytes();
            let n = m.word_info().borrow_data().normalized_form.as_bytes();
            let d = m.word_info().borrow_data().dictionary_form.as_bytes();
            assert!(n.len() == s.len() && d.len() == s.len());
            let mut k = 0;
            while k < s.len() {{
                assert!(n[k] == s[k] && d[k] == s[k], "normalised and dictionary form of a joined OOV are its surface");
                k += 1;
            }}
            let mut any_oov = false;
            for i in {b}..{e} {{
                any_oov |= WordId::from_raw(y.wid[i]).is_oov();
            }}
            if any_oov {{
                assert!(m.word_id().is_oov(), "a join containing an OOV part is reported as OOV");
            }}
        }}
        kani::cover!(y.bb[{e}] - y.bb[{b}] != [0u16, 2, 3, 6][{e}] - [0u16, 2, 3, 6][{b}], "dictionary-side surface length differs from the matched text");
        kani::cover!(WordId::from_raw(y.wid[{b}]).is_oov() && !WordId::from_raw(y.wid[{e} - 1]).is_oov(), "OOV part joined with a dictionary word");
        std::mem::forget(r);
        std::mem::forget(y);
    }}
    //@END
'''

def gen_text(prefix, ranges):
    out = []
    for (b, e) in ranges:
        out.append(TPL_NODES.format(p=prefix, b=b, e=e))
        out.append(TPL_OOV.format(p=prefix, b=b, e=e))
    return "\n".join(out)


def gen_harnesses(prefix, ranges, required=True):
    hs = []
    for (b, e) in ranges:
        for fn in ("concat_nodes", "concat_oov_nodes"):
            hs.append(Harness("%s_%s_%d_%d" % (prefix, fn, b, e), "analysis__node", [fn, "ResultNode::new", "Vec::drain"],
                              "path of 3 adjacent nodes, merge of [%d, %d); every character/byte offset, cumulative cost, key length, word id, part of speech symbolic; "
                              "dictionary-side strings of fixed lengths (2, 1, 3 bytes) with arbitrary lower-case contents, independent of the matched byte ranges" % (b, e),
                              kernel="C14/C01 a merge covers exactly the union of the merged ranges (begin of the first, end of the last, in characters and bytes), concatenates the "
                                     "dictionary-side strings, carries the prescribed part of speech; tokens outside the merge are unchanged",
                              assumptions=["nodes of the path are adjacent and ordered (C02-c / c01_path_*)", "each merged word's key length does not exceed the text it matched"],
                              stubs=["alloc::fmt::format -> empty string"], fs_array=True, timeout_s=1200, mem_gb=16, required=required))
    return hs


def params(ctx):
    return {"MOD": "verif_c14", "GENERATED": gen_text("c14", _ranges(ctx))}


def _ranges(ctx):
    return RANGES if ctx.tier == "thorough" else RANGES[:2]


def harnesses(ctx):
    return gen_harnesses("c14", _ranges(ctx))


OUTSIDE = ["WHICH tokens the plugins decide to merge (JoinNumericPlugin::rewrite_gen / JoinKatakanaOovPlugin::rewrite_gen: scan, restart, numeric parser, katakana/length tests) - "
           "their symbolic execution over a 2-node path did not terminate in 400 s [measured]", "that the plugins run before A/B splitting", "C15 (the normalised numeral)"]
EXPLANATION = "Both plugins change the path only through concat_nodes / concat_oov_nodes; these two kernels are decided for all offsets, costs, ids and string contents on 3-node paths."
MANIFEST = dict(
    design_ref="DESIGN.md §4 C14",
    technique="bounded model checking (Kani/CBMC/cadical) of the two merge kernels concat_nodes / concat_oov_nodes on 3-node paths with symbolic ranges, costs, ids and string contents",
    text=("Kernel-level claim. Both path-rewrite plugins alter the path only by calling concat_nodes / concat_oov_nodes; for every merge range of a 3-node path and every value of the "
          "symbolic character/byte offsets, cumulative costs, key lengths, word ids, parts of speech and string contents the solver shows: the result has exactly one node in place of the "
          "merged ones, it begins where the first and ends where the last merged node did (characters and bytes - also when the dictionary-side surface is shorter or longer than the "
          "matched text), its dictionary-side surface / reading / dictionary form / normalised form are the concatenations (or the given normalised form), its part of speech is the "
          "prescribed one, nodes outside the range are unchanged. Which tokens the plugins choose to merge is outside (not encodable)."),
    note="The plugins' scan loops (rewrite_gen) are outside: they did not get through symbolic execution. Trusted: Kani/CBMC/cadical.",
)
