// C14 (and C01: joined nodes) — concat_nodes / concat_oov_nodes merge path[begin..end] into ONE node that covers exactly the
// union of the merged ranges, carries the concatenation of their dictionary-side strings and the prescribed part of
// speech, and leave every other node of the path untouched.
#[cfg(kani)]
mod /*@MOD@*/verif_c14 {
    use super::*;

    fn stub_format(_a: std::fmt::Arguments<'_>) -> String {
        String::new()
    }

    /// three adjacent nodes with arbitrary (but chained) character/byte ranges, costs, ids and parts of speech; the
    /// dictionary-side strings have fixed lengths (2, 1, 3 bytes; readings 1, 0, 2; ...) and arbitrary ASCII contents.
    /// `surface_matches` = false gives dictionary-side surfaces whose length differs from the matched text range.
    struct Sym {
        cb: [u16; 4],
        bb: [u16; 4],
        tc: [i32; 3],
        pos: [u16; 3],
        wid: [u32; 3],
        hw: [u16; 3],
        s: [u8; 6],
    }

    fn sym() -> Sym {
        let y = Sym { cb: kani::any(), bb: kani::any(), tc: kani::any(), pos: kani::any(), wid: kani::any(), hw: kani::any(), s: kani::any() };
        for i in 0..3 {
            kani::assume(y.cb[i] <= y.cb[i + 1] && y.bb[i] <= y.bb[i + 1]);
            // key lengths of the merged words never exceed the text they matched (so their sum fits the u16 field)
            kani::assume(y.hw[i] <= y.bb[i + 1] - y.bb[i]);
        }
        for i in 0..6 {
            kani::assume(y.s[i] >= b'a' && y.s[i] <= b'z');
        }
        y
    }

    fn st(b: &[u8]) -> String {
        String::from_utf8(b.to_vec()).unwrap()
    }

    fn path_of(y: &Sym) -> Vec<ResultNode> {
        let mut p = Vec::with_capacity(3);
        let cuts = [0usize, 2, 3, 6];
        for i in 0..3 {
            let wi = WordInfoData {
                surface: st(&y.s[cuts[i]..cuts[i + 1]]),
                head_word_length: y.hw[i],
                pos_id: y.pos[i],
                normalized_form: st(&y.s[cuts[i]..cuts[i + 1]]),
                dictionary_form: st(&y.s[cuts[i]..cuts[i] + 1]),
                reading_form: st(&y.s[cuts[i + 1] - 1..cuts[i + 1]]),
                dictionary_form_word_id: -1,
                ..Default::default()
            };
            p.push(ResultNode::new(
                Node::new(y.cb[i], y.cb[i + 1], 7, 8, 9, WordId::from_raw(y.wid[i])),
                y.tc[i],
                y.bb[i],
                y.bb[i + 1],
                wi.into(),
            ));
        }
        p
    }

    fn same_node(n: &ResultNode, y: &Sym, i: usize) -> bool {
        n.begin() == y.cb[i] as usize
            && n.end() == y.cb[i + 1] as usize
            && n.begin_bytes() == y.bb[i] as usize
            && n.end_bytes() == y.bb[i + 1] as usize
            && n.total_cost() == y.tc[i]
            && n.word_id() == WordId::from_raw(y.wid[i])
            && n.word_info().pos_id() == y.pos[i]
            && n.word_info().borrow_data().head_word_length == y.hw[i]
            && n.word_info().surface().len() == [2usize, 1, 3][i]
            && n.left_id() == 7
            && n.right_id() == 8
            && n.cost() == 9
    }

    fn check_merged(m: &ResultNode, y: &Sym, b: usize, e: usize) {
        assert!(m.begin() == y.cb[b] as usize && m.end() == y.cb[e] as usize, "the joined token covers the union of the merged character ranges");
        assert!(
            m.begin_bytes() == y.bb[b] as usize && m.end_bytes() == y.bb[e] as usize,
            "the joined token covers the union of the merged byte ranges"
        );
        assert!(m.total_cost() == y.tc[e - 1], "the joined token reports the cumulative cost of its last part");
        let cuts = [0usize, 2, 3, 6];
        let s = m.word_info().surface().as_bytes();
        assert!(s.len() == cuts[e] - cuts[b], "dictionary-side surface is the concatenation of the merged ones (length)");
        let mut k = 0;
        while k < s.len() {
            assert!(s[k] == y.s[cuts[b] + k], "dictionary-side surface is the concatenation of the merged ones (content)");
            k += 1;
        }
        let mut hw: u32 = 0;
        for i in b..e {
            hw += y.hw[i] as u32;
        }
        assert!(m.word_info().borrow_data().head_word_length as u32 == hw, "key length of the joined token is the sum of the merged key lengths");
    }

/*@GENERATED@*/
}
