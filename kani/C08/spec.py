"""C08 — offset map is monotone and anchored; code-point offsets agree with byte offsets (DESIGN §4 C08).
C01 re-uses this file's edit-batch harnesses (C01-b)."""
from runner import Harness

# edit-batch shapes: (name, source text, [(start_char, end_char, replacement, kind)], tiers)
# positions are in characters of the source (converted to byte ranges below); kind in Ref|Char|Str
SHAPES = [
    ("mid_longer", "aあé", [(1, 2, "xy", "Ref")], ("quick", "thorough")),
    ("mid_shorter", "aあé", [(1, 2, "x", "Char")], ("quick", "thorough")),
    ("mid_equal_width", "aあé", [(1, 2, "い", "Char")], ("quick", "thorough")),
    ("mid_delete", "aあé", [(1, 2, "", "Ref")], ("quick", "thorough")),
    ("start_longer", "éあb", [(0, 1, "あx", "Str")], ("quick", "thorough")),
    ("start_delete", "éあb", [(0, 1, "", "Ref")], ("quick", "thorough")),
    ("end_longer", "a😀", [(1, 2, "あい", "Str")], ("quick", "thorough")),
    ("end_delete", "aあ😀", [(2, 3, "", "Str")], ("quick", "thorough")),
    ("two_chars_to_one", "aあéb", [(1, 3, "z", "Ref")], ("quick", "thorough")),
    ("expand_1_to_3", "a㍿b", [(1, 2, "株式会社"[:3], "Str")], ("quick", "thorough")),
    ("two_edits_adjacent", "aあéb", [(1, 2, "x", "Char"), (2, 3, "yz", "Ref")], ("thorough",)),
    ("two_edits_replace_then_delete", "aあéb", [(0, 1, "あ", "Char"), (2, 3, "", "Ref")], ("thorough",)),
    ("two_deletes", "aあéb", [(0, 1, "", "Ref"), (3, 4, "", "Ref")], ("thorough",)),
    ("three_edits", "aあéb😀", [(0, 1, "xy", "Ref"), (2, 3, "", "Ref"), (4, 5, "あ", "Char")], ("thorough",)),
    ("delete_two_adjacent", "aあéb", [(1, 2, "", "Ref"), (2, 3, "", "Ref")], ("thorough",)),
]
OLMAX = 14  # bound on the abstract original's length (boundary set is a bit mask)


def char_starts(s):
    out, pos = [], 0
    for ch in s:
        out.append(pos)
        pos += len(ch.encode("utf-8"))
    out.append(pos)
    return out


def rust_str(s):
    return '"' + "".join("\\u{%x}" % ord(c) for c in s) + '"'


def gen_shape(name, src, edits):
    """Rust text of one inductive-step harness + the python-side expectation (independent of the Rust code)."""
    st = char_starts(src)
    sl = st[-1]
    # expected target text and, per target char boundary, the expected image as an expression over the previous map m
    target = ""
    exp = []  # list of (target_byte_pos, expr or None)  (None = no exact expectation beyond the invariant)
    pos_c = 0
    tpos = 0
    for (a, b, rep, kind) in edits:
        for c in range(pos_c, a):      # unreplaced characters keep their image start
            exp.append((tpos, "m[%d]" % st[c]))
            target += src[c]
            tpos += len(src[c].encode("utf-8"))
        for k, rc in enumerate(rep):  # replacement: first byte -> start of the replaced span, the rest -> its end
            exp.append((tpos, "m[%d]" % (st[a] if k == 0 else st[b])))
            target += rc
            tpos += len(rc.encode("utf-8"))
        pos_c = b
    for c in range(pos_c, len(src)):
        exp.append((tpos, "m[%d]" % st[c]))
        target += src[c]
        tpos += len(src[c].encode("utf-8"))
    exp.append((tpos, "m[%d]" % sl))  # end sentinel
    tl = tpos
    assert tl == len(target.encode("utf-8"))
    L = []
    a = L.append
    a("    //@H c08_batch_%s" % name)
    a("    #[kani::proof]")
    a("    #[kani::unwind(%d)]" % (max(sl, tl, OLMAX) + 4))
    a("    fn c08_batch_%s() {" % name)
    a("        let source: &str = %s; // %s" % (rust_str(src), src.encode("unicode_escape").decode()))
    a("        // previous map: ANY values satisfying the invariant against an abstract original (length ol, boundary mask ob)")
    a("        let ol: usize = kani::any();")
    a("        kani::assume(ol >= 1 && ol <= %d);" % OLMAX)
    a("        let ob: u32 = kani::any();")
    a("        kani::assume(ob & 1 == 1 && (ob >> ol) & 1 == 1);")
    a("        let mut m: Vec<usize> = Vec::with_capacity(%d);" % (sl + 1))
    bset = set(st)
    for i in range(sl + 1):
        a("        m.push(kani::any());")
    a("        kani::assume(m[0] == 0 && m[%d] == ol);" % sl)
    prev = None
    for i in st:
        a("        kani::assume(m[%d] <= ol && (ob >> m[%d]) & 1 == 1);" % (i, i))
        if prev is not None:
            a("        kani::assume(m[%d] <= m[%d]);" % (prev, i))
        prev = i
    a("        let mut target = String::with_capacity(%d);" % (tl + 8))
    a("        let mut tm: Vec<usize> = Vec::with_capacity(%d);" % (tl + 9))
    ops = []
    for (x, y, rep, kind) in edits:
        if kind == "Ref":
            w = "ReplaceTgt::Ref(%s)" % rust_str(rep)
        elif kind == "Char":
            assert len(rep) == 1
            w = "ReplaceTgt::Char('\\u{%x}')" % ord(rep)
        else:
            w = "ReplaceTgt::Str(String::from(%s))" % rust_str(rep)
        ops.append("ReplaceOp { what: %d..%d, with: %s }" % (st[x], st[y], w))
    a("        let mut edits: Vec<ReplaceOp> = vec![%s];" % ", ".join(ops))
    a("        let sz = resolve_edits(source, &m, &mut target, &mut tm, &mut edits);")
    a('        assert!(sz == %d, "returned size is the length of the rewritten text");' % tl)
    a("        let want: &str = %s;" % rust_str(target))
    a("        assert!(target.len() == %d);" % tl)
    a("        let (tb, wb) = (target.as_bytes(), want.as_bytes());")
    a("        for i in 0..%d { assert!(tb[i] == wb[i]); }" % tl)
    a('        assert!(tm.len() == %d, "one map entry per byte of the rewritten text plus the end sentinel");' % (tl + 1))
    if tl > 0:
        a('        assert!(tm[0] == 0, "start maps to start");')
        a('        assert!(tm[%d] == ol, "end maps to end");' % tl)
        prevp = None
        for (p, e) in exp:
            a('        assert!(tm[%d] <= ol && (ob >> tm[%d]) & 1 == 1, "character boundaries map to character boundaries");' % (p, p))
            if prevp is not None:
                a('        assert!(tm[%d] <= tm[%d], "the map is non-decreasing over character boundaries");' % (prevp, p))
            if p > 0:
                a('        assert!(tm[%d] == %s, "unreplaced characters keep their image; a replacement spans the replaced range");' % (p, e))
            prevp = p
    a('        kani::cover!(ol == %d, "longest abstract original");' % OLMAX)
    a('        kani::cover!(m[%d] == 0 && ol > 1, "previous map already has an empty image (earlier expansion)");' % st[1])
    a('        kani::cover!(m[%d] > %d, "previous map already skipped text (earlier deletion)");' % (st[1], 4))
    a("        std::mem::forget(target); std::mem::forget(tm); std::mem::forget(m); std::mem::forget(edits);")
    a("    }")
    a("    //@END")
    return "\n".join(L), target


def params(ctx):
    gens = [gen_shape(n, s, e)[0] for (n, s, e, t) in SHAPES if ctx.tier in t]
    nc = 3 if ctx.tier == "quick" else 4
    return {"MOD": "verif_c08", "GENERATED": "\n\n".join(gens), "NC": nc, "UNW_TXT": 4 * nc + 4}


def batch_harnesses(ctx, prefix_kernel):
    hs = []
    for (n, s, e, t) in SHAPES:
        if ctx.tier not in t:
            continue
        _, target = gen_shape(n, s, e)
        heavy = len(e) >= 2
        hs.append(Harness("c08_batch_" + n, "input_text__buffer__edit", ["resolve_edits", "add_replace"],
                          "shape %r with edits %s -> %r; the previous map is ANY map satisfying the invariant against an abstract original of <= %d bytes with an arbitrary boundary set" % (
                              s, [(a, b, r) for (a, b, r, k) in e], target, OLMAX),
                          kernel=prefix_kernel, shape={"source": s, "edits": [[a, b, r, k] for (a, b, r, k) in e], "target": target},
                          assumptions=["edits sorted, non-overlapping, on character boundaries (what the input plugins emit; unchecked by resolve_edits)",
                                       "previous map satisfies the invariant I (first 0, last = original length, non-decreasing on boundaries, boundary -> boundary)"],
                          timeout_s=(1500 if heavy else 900) if ctx.tier == "quick" else 3000, mem_gb=(24 if heavy else 12) if ctx.tier == "quick" else 40,
                          required=not heavy,
                          outside=["symbolic shapes (character widths and edit positions as unknowns)", "an edit batch that empties the text"]))
    return hs


def harnesses(ctx):
    q = ctx.tier == "quick"
    nc = 3 if q else 4
    hs = batch_harnesses(ctx, "C08-b one edit batch preserves the offset-map invariant (inductive step over histories of batches)")
    hs += [
        Harness("c08_orig_b2c", "input_text__buffer__mod", ["InputBuffer::fill_orig_b2c", "InputBuffer::to_orig_char_idx", "InputBuffer::to_orig_byte_idx"],
                "original texts over 5 concrete width patterns (1-4 byte characters); continuation bytes and the queried byte offset symbolic",
                kernel="C08-c original byte -> code-point table: entry at a boundary = number of code points before it, usize::MAX elsewhere - "
                       "whatever the tables of the normalised text hold (same or different byte length, other character layout) and whatever the table held before",
                timeout_s=1200, mem_gb=16),
    ] + [
        Harness("c08_build_tables_p%d" % i, "input_text__buffer__mod", ["InputBuffer::build (char/byte tables)", "InputBuffer::start_build", "InputBuffer::to_curr_byte_idx",
                                                                        "InputBuffer::ch_idx", "InputBuffer::curr_byte_offsets"],
                "concrete normalised text with the width pattern %s (1-4 byte characters); the queried char index and byte offset symbolic; default character classes" % pat,
                kernel="C08-d modified char<->byte tables with sentinels", shape={"widths": pat}, timeout_s=1200, mem_gb=16)
        for i, pat in enumerate([[1, 3, 4, 2], [4, 4, 1], [2, 2, 3, 1], [3], [1, 1, 1, 1, 1]])
    ] + [
        Harness("c08_begin_end_c", "input_text__buffer__mod", ["InputBuffer::to_orig_char_idx", "InputBuffer::to_orig_byte_idx", "InputBuffer::fill_orig_b2c"],
                "concrete mixed-width original (6 characters), 3-character normalised text, ANY offset map satisfying the invariant, any character index",
                kernel="C08 code-point offsets (Morpheme::begin_c/end_c) = number of code points before the byte offsets (Morpheme::begin/end)",
                assumptions=["offset map satisfies the invariant I (decided inductively by c08_batch_*)"], timeout_s=900, mem_gb=12),
    ]
    return hs


OUTSIDE = ["symbolic edit shapes (widths/positions as unknowns): measured out of reach", "Python begin()/end() (PyO3)",
           "that plugins emit sorted non-overlapping edits on boundaries (regex engines)"]
EXPLANATION = ("Inductive step: an arbitrary previous map satisfying the invariant, one concrete-shaped edit batch through the real resolve_edits, the invariant and "
               "the per-character images asserted afterwards; plus the byte/code-point tables for all character widths.")
MANIFEST = dict(
    design_ref="DESIGN.md §4 C08",
    technique="bounded model checking (Kani/CBMC/cadical), inductive step: symbolic previous offset map (any map satisfying the invariant) through resolve_edits on enumerated edit shapes; symbolic characters through the byte/code-point table builders",
    text=("The property quantifies over histories of edit batches; it is decided as an inductive step: for each enumerated batch shape (replace by shorter/longer/equal/empty at start, middle, "
          "end, 1-4 byte characters, adjacent edits, edit + deletion) and EVERY previous map satisfying the invariant (start->start, end->end, non-decreasing on boundaries, boundary->boundary, "
          "against an abstract original with arbitrary boundary set) resolve_edits yields a map satisfying the invariant again, every unreplaced character keeps its image and the returned "
          "size is the new length. Code-point offsets: for all texts of N arbitrary scalar values the original byte->code-point table and the modified char<->byte tables are exact, and "
          "to_orig_char_idx equals the number of code points before to_orig_byte_idx for every map satisfying the invariant."),
    note=("Shapes are enumerated (concrete widths/positions), the previous map and the original's boundary set are symbolic; abstract original <= 14 bytes. Assumes edits sorted/non-overlapping/on boundaries. "
          "Trusted: Kani/CBMC/cadical, the Python-side expectation of the rewritten text."),
)
