// C08-b / C01-b — one edit batch preserves the offset-map invariant (generated per shape by spec.py).
#[cfg(kani)]
mod /*@MOD@*/verif_c08 {
    use super::*;

/*@GENERATED@*/
}
