// C08-c/d — byte <-> code-point tables, and code-point offsets of morphemes.
#[cfg(kani)]
mod verif_c08 {
    use super::*;

    // Width patterns are concrete (symbolic widths make every later offset symbolic: measured > 16 GB);
    // lead bytes are fixed per width, continuation bytes are symbolic.
    const PATTERNS: [&[usize]; 5] = [&[1, 3, 4, 2], &[4, 4, 1], &[2, 2, 3, 1], &[3], &[1, 1, 1, 1, 1]];

    /// Text for a width pattern + byte offset of every character (+ end).
    fn text_for(widths: &[usize]) -> (String, [usize; 6], usize) {
        let mut bytes: Vec<u8> = Vec::with_capacity(20);
        let mut starts = [0usize; 6];
        let n = widths.len();
        for k in 0..n {
            starts[k] = bytes.len();
            match widths[k] {
                1 => bytes.push(b'a'),
                2 => { bytes.push(0xC3); bytes.push(cont()); }
                3 => { bytes.push(0xE3); bytes.push(cont()); bytes.push(cont()); }
                _ => { bytes.push(0xF0); bytes.push(0x9F); bytes.push(cont()); bytes.push(cont()); }
            }
        }
        starts[n] = bytes.len();
        (unsafe { String::from_utf8_unchecked(bytes) }, starts, n)
    }

    fn cont() -> u8 {
        let b: u8 = kani::any();
        kani::assume(b >= 0x80 && b <= 0xBF);
        b
    }

    fn orig_b2c_pattern(p: usize) {
        let (text, starts, n) = text_for(PATTERNS[p]);
        let len = text.len();
        let mut buf = InputBuffer::default();
        buf.original = text;
        // fill_orig_b2c runs at the end of `build`, when the tables of the NORMALISED text are already filled: the table of
        // the original must not depend on them.  Here: a normalised text of the same byte length but another character
        // layout (all ASCII) with its tables, and stale junk in the table itself.
        let same_len: bool = kani::any();
        let mlen = if same_len { len } else { len + 1 };
        for i in 0..mlen {
            buf.modified.push('x');
            buf.mod_b2c.push(i);
            buf.mod_c2b.push(i);
            buf.m2o.push(if i < len { i } else { len });
        }
        buf.mod_b2c.push(mlen);
        buf.mod_c2b.push(mlen);
        buf.m2o.push(len);
        let junk: usize = kani::any();
        buf.m2o_2.push(junk);
        buf.m2o_2.push(junk);
        buf.fill_orig_b2c();
        assert!(buf.m2o_2.len() == len + 1);
        kani::cover!(same_len, "normalised text of the same byte length as the original");
        kani::cover!(!same_len, "normalised text of another byte length");
        let b: usize = kani::any();
        kani::assume(b <= len);
        let mut is_boundary = false;
        let mut chars_before = 0usize;
        for k in 0..n + 1 {
            if starts[k] == b {
                is_boundary = true;
                chars_before = k;
            }
        }
        if is_boundary {
            assert!(buf.m2o_2[b] == chars_before, "entry at a character boundary = number of code points before it");
        } else {
            assert!(buf.m2o_2[b] == usize::MAX, "non-boundaries are marked");
        }
        kani::cover!(is_boundary && b == len, "end of text");
        kani::cover!(!is_boundary || n == len, "inside a character");
        std::mem::forget(buf);
    }

    //@H c08_orig_b2c
    #[kani::proof]
    #[kani::unwind(24)]
    fn c08_orig_b2c() {
        for p in 0..PATTERNS.len() {
            orig_b2c_pattern(p);
        }
    }
    //@END

    /// Same width patterns with fully concrete characters: `build` with symbolic continuation bytes
    /// ran out of 16 GB even for a single 3-byte character (measured), so only the queried offsets are symbolic here.
    fn concrete_text_for(widths: &[usize]) -> (String, [usize; 6], usize) {
        let mut s = String::with_capacity(20);
        let mut starts = [0usize; 6];
        let n = widths.len();
        for k in 0..n {
            starts[k] = s.len();
            s.push(match widths[k] { 1 => 'a', 2 => '\u{e9}', 3 => '\u{3042}', _ => '\u{1f600}' });
        }
        starts[n] = s.len();
        (s, starts, n)
    }

    fn build_tables_pattern(p: usize) {
        use crate::dic::connect::ConnectionMatrix;
        let (text, starts, n) = concrete_text_for(PATTERNS[p]);
        let len = text.len();
        let g = Grammar::verif_with_matrix(ConnectionMatrix::verif_from_vec(Vec::new(), 0, 0));
        let mut buf = InputBuffer::default();
        buf.reset().push_str(&text);
        let r = buf.start_build();
        assert!(r.is_ok());
        let r2 = buf.build(&g);
        assert!(r2.is_ok());
        assert!(buf.mod_chars.len() == n && buf.mod_c2b.len() == n + 1 && buf.mod_b2c.len() == len + 1);
        assert!(buf.curr_byte_offsets().len() == n);
        let k: usize = kani::any();
        kani::assume(k <= n);
        assert!(buf.to_curr_byte_idx(k) == starts[k], "char index -> byte offset (with end sentinel)");
        let b: usize = kani::any();
        kani::assume(b <= len);
        let mut want = n;
        for j in 0..n {
            if starts[j] <= b && b < starts[j + 1] {
                want = j;
            }
        }
        assert!(buf.ch_idx(b) == want, "byte offset -> index of the character containing it (end sentinel = number of characters)");
        // identity offset map before any edit
        assert!(buf.m2o.len() == len + 1 && buf.m2o[b] == b);
        assert!(buf.to_orig_byte_idx(k) == starts[k] && buf.to_orig_char_idx(k) == k);
        kani::cover!(b == len, "end sentinel");
        kani::cover!(k == n, "char end sentinel");
        std::mem::forget(r);
        std::mem::forget(r2);
        std::mem::forget(buf);
        std::mem::forget(g);
        std::mem::forget(text);
    }

    //@H c08_build_tables_p0
    #[kani::proof]
    #[kani::unwind(24)]
    fn c08_build_tables_p0() {
        build_tables_pattern(0);
    }
    //@END

    //@H c08_build_tables_p1
    #[kani::proof]
    #[kani::unwind(24)]
    fn c08_build_tables_p1() {
        build_tables_pattern(1);
    }
    //@END

    //@H c08_build_tables_p2
    #[kani::proof]
    #[kani::unwind(24)]
    fn c08_build_tables_p2() {
        build_tables_pattern(2);
    }
    //@END

    //@H c08_build_tables_p3
    #[kani::proof]
    #[kani::unwind(24)]
    fn c08_build_tables_p3() {
        build_tables_pattern(3);
    }
    //@END

    //@H c08_build_tables_p4
    #[kani::proof]
    #[kani::unwind(24)]
    fn c08_build_tables_p4() {
        build_tables_pattern(4);
    }
    //@END

    /// begin_c()/end_c() of a morpheme = number of code points of the ORIGINAL before begin()/end(),
    /// for every offset map satisfying the invariant.
    //@H c08_begin_end_c
    #[kani::proof]
    #[kani::unwind(24)]
    fn c08_begin_end_c() {
        // original: a é あ 😀 b ㍿  -> boundaries 0 1 3 6 10 11 14
        const OB: [usize; 7] = [0, 1, 3, 6, 10, 11, 14];
        let mut buf = InputBuffer::default();
        buf.original = String::from("a\u{e9}\u{3042}\u{1f600}b\u{337f}");
        buf.state = BufferState::RO;
        buf.fill_orig_b2c();
        // normalised text of 3 characters: x あ y  (bytes 0 1 4 5)
        buf.modified = String::from("x\u{3042}y");
        buf.mod_c2b = vec![0, 1, 4, 5];
        let mut m: Vec<usize> = Vec::with_capacity(6);
        for _ in 0..6 {
            m.push(kani::any());
        }
        // invariant I on the boundaries 0,1,4,5 of the normalised text
        let mut idx = [0usize; 4];
        let cb = [0usize, 1, 4, 5];
        for t in 0..4 {
            let i: usize = kani::any();
            kani::assume(i < 7);
            kani::assume(m[cb[t]] == OB[i]);
            idx[t] = i;
            if t > 0 {
                kani::assume(idx[t - 1] <= i);
            }
        }
        kani::assume(idx[0] == 0 && idx[3] == 6);
        buf.m2o = m;
        let c: usize = kani::any();
        kani::assume(c <= 3);
        let byte = buf.to_orig_byte_idx(c);
        let cp = buf.to_orig_char_idx(c);
        assert!(byte == OB[idx[c]]);
        assert!(cp == idx[c], "code-point offset = number of code points of the original before the byte offset");
        // slicing the original by code points and by bytes gives the same surface
        let d: usize = kani::any();
        kani::assume(c <= d && d <= 3);
        let s = buf.orig_slice_c(c..d);
        assert!(s.len() == OB[idx[d]] - OB[idx[c]]);
        assert!(buf.to_orig_char_idx(d) - cp == idx[d] - idx[c]);
        kani::cover!(idx[1] == idx[2] && c == 1 && d == 2, "empty original range");
        kani::cover!(idx[1] == 4 && c == 1, "boundary after an astral character");
        std::mem::forget(buf);
    }
    //@END
}
