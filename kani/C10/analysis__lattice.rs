// C10 — lattice reuse: reset() after arbitrary earlier content behaves like a fresh lattice.
#[cfg(kani)]
mod verif_c10 {
    use super::*;

    const PREV: usize = /*@PREV@*/3; // the earlier sentence had PREV characters
    const K: usize = 2; // nodes per boundary left behind

    /// `n` (length of the next sentence) is concrete per harness: a symbolic one makes the growth of
    /// Vec<Vec<_>> intractable (measured: > 16 GB)
    fn lattice_reset(n: usize) {
        // arbitrary earlier content: every row of a PREV-character lattice holds K arbitrary nodes, eos set or not
        let mut lat = Lattice::default();
        lat.reset(PREV);
        for b in 0..PREV + 1 {
            for _ in 0..K {
                let r: u16 = kani::any();
                let t: i32 = kani::any();
                lat.ends[b].push(VNode::new(r, t));
                lat.indices[b].push(NodeIdx::new(kani::any(), kani::any()));
                lat.ends_full[b].push(Node::new(kani::any(), b as u16, kani::any(), r, kani::any(), WordId::from_raw(kani::any())));
            }
        }
        if kani::any() {
            lat.eos = Some((NodeIdx::new(kani::any(), kani::any()), kani::any()));
        }
        // next sentence: shorter, equal or longer
        lat.reset(n);
        assert!(lat.size == n + 1);
        assert!(lat.eos.is_none(), "no end-of-sentence connection survives a reset");
        assert!(lat.ends.len() >= n + 1 && lat.ends_full.len() >= n + 1 && lat.indices.len() >= n + 1);
        for b in 0..PREV + 3 {
            if b < lat.ends.len() {
                // ALL rows are cleared (also those beyond the new size: has_previous_node() looks at them)
                let want = if b == 0 { 1 } else { 0 };
                assert!(lat.ends[b].len() == want, "no stale node survives a reset (row 0 holds exactly BOS)");
                assert!(lat.ends_full[b].is_empty() && lat.indices[b].is_empty());
                assert!(lat.has_previous_node(b) == (b == 0));
            }
        }
        assert!(lat.ends[0][0].total_cost == 0 && lat.ends[0][0].right_id == 0, "BOS: cost 0, right id 0");
        assert!(!lat.has_previous_node(PREV + 7));
        let mut p: Vec<NodeIdx> = Vec::new();
        lat.fill_top_path(&mut p);
        assert!(p.is_empty(), "no path before the new sentence is analysed");
        kani::cover!(lat.ends.len() == if n > PREV { n + 1 } else { PREV + 1 }, "rows are kept, never shrunk");
        std::mem::forget(lat);
        std::mem::forget(p);
    }

    //@H c10_lattice_reset_empty
    #[kani::proof]
    #[kani::unwind(/*@UNW@*/8)]
    fn c10_lattice_reset_empty() {
        lattice_reset(0);
    }
    //@END

    //@H c10_lattice_reset_shorter
    #[kani::proof]
    #[kani::unwind(/*@UNW@*/8)]
    fn c10_lattice_reset_shorter() {
        lattice_reset(PREV - 2);
    }
    //@END

    //@H c10_lattice_reset_same
    #[kani::proof]
    #[kani::unwind(/*@UNW@*/8)]
    fn c10_lattice_reset_same() {
        lattice_reset(PREV);
    }
    //@END

    //@H c10_lattice_reset_longer
    #[kani::proof]
    #[kani::unwind(/*@UNW@*/8)]
    fn c10_lattice_reset_longer() {
        lattice_reset(PREV + 2);
    }
    //@END
}
