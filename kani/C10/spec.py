"""C10 — results do not depend on what a tokenizer processed before (DESIGN §4 C10)."""
from runner import Harness


def params(ctx):
    q = ctx.tier == "quick"
    prev = 3 if q else 4
    return {"PREV": prev, "UNW": prev + 5}


def harnesses(ctx):
    q = ctx.tier == "quick"
    prev = 3 if q else 4
    return [
        Harness("c10_mode_subset_history", "analysis__stateful_tokenizer", ["StatefulTokenizer::create", "StatefulTokenizer::set_mode", "StatefulTokenizer::set_subset", "InfoSubset::normalize"],
                "arbitrary earlier history (any mode, any earlier request, a mode change before and after it), then {request r; mode m} in either order or alone; all 3 modes x all 1024 requests each",
                kernel="C10-b the loaded field set after any mode/request history contains what a fresh tokenizer with the same mode and request loads, plus at most stale split fields",
                assumptions=["a fresh tokenizer = create(mode); set_mode(mode); set_subset(request) (what the Python/CLI front ends do)"], timeout_s=900, mem_gb=12),
        Harness("c10_empty_text_after_history", "analysis__stateful_tokenizer", ["StatefulTokenizer::reset", "StatefulTokenizer::do_tokenize", "the Vec swap of StatefulTokenizer::swap_result",
                                                                                 "InputBuffer::start_build", "InputBuffer::build"],
                "tokenizer whose recycled result vector holds 0-2 arbitrary stale morphemes, caller's list holding 0-2 arbitrary stale morphemes, any mode; then reset + empty text + do_tokenize + the result-vector swap of swap_result",
                kernel="C10-d after any history the empty text yields no morphemes (do_tokenize returns before the path is rebuilt: only reset can have emptied the recycled vector)",
                assumptions=["no input-text plugins", "default character classes"], fs_array=True, timeout_s=900, mem_gb=12),
        Harness("c10_buffer_reuse", "input_text__buffer__mod", ["InputBuffer::reset", "InputBuffer::start_build", "InputBuffer::refresh_chars", "InputBuffer::build",
                                                                "InputBuffer::current_chars", "InputBuffer::to_orig_byte_idx", "InputBuffer::to_orig_char_idx"],
                "every table of the buffer holds arbitrary junk of an earlier, longer analysis (any state); next text \"a\u3042\"; compared field by field with a fresh buffer",
                kernel="C10-c input buffer reuse: reset + start_build + refresh_chars + build on a used buffer = the same on a fresh one (also what plugins see between start_build and build)",
                timeout_s=1500, mem_gb=20, assumptions=["concrete 2-character next text; junk contents symbolic, junk lengths concrete"]),
    ] + [
        Harness("c10_lattice_reset_" + nm, "analysis__lattice", ["Lattice::reset", "Lattice::reset_vec", "Lattice::connect_bos", "Lattice::has_previous_node", "Lattice::fill_top_path"],
                "arbitrary content of a %d-character lattice (2 arbitrary nodes per boundary, end-of-sentence set or not), next sentence of %d characters" % (prev, n),
                kernel="C10-a after reset() no stale node, back-pointer or end-of-sentence link is visible: the state equals a fresh lattice's for every row that any later call can read",
                fs_array=True, timeout_s=1200, mem_gb=16, shape={"previous_chars": prev, "next_chars": n},
                outside=["equality of the subsequent analysis follows because insert/connect_eos/fill_top_path/node read nothing but these rows (argument, not checked)"])
        for nm, n in (("empty", 0), ("shorter", prev - 2), ("same", prev), ("longer", prev + 2))
    ]


OUTSIDE = ["the OOV scratch vector, result-list swapping, the Python scope guard", "failed analyses end to end (input too long, EosBosDisconnect)",
           "input-text plugins themselves (only the buffer state they read is compared)"]
EXPLANATION = "Inductive steps over arbitrary earlier state: lattice reset, and the mode/field-request state machine compared with a fresh tokenizer (relational, both sides real code)."
MANIFEST = dict(
    design_ref="DESIGN.md §4 C10",
    technique="bounded model checking (Kani/CBMC/cadical), inductive/relational: arbitrary earlier lattice content through Lattice::reset; arbitrary mode/request histories through set_mode/set_subset compared with a fresh tokenizer",
    text=("Histories are covered by inductive steps over an arbitrary earlier state: (a) whatever a lattice held before (any nodes, costs, back-pointers, end-of-sentence link), reset(n) for a shorter, "
          "equal or longer sentence leaves no stale data in any row a later call can read; (b) after any earlier mode/request history followed by a request and a mode change in either order, the "
          "field set a reused tokenizer loads contains the one a fresh tokenizer with the same mode and request loads and exceeds it only by stale split fields - and always includes the "
          "key length the A/B splitting code reads. (c) an input buffer whose tables hold arbitrary junk behaves like a fresh one after reset; (d) whatever stale morphemes the recycled result vector and the caller's list hold, the empty text yields no morphemes. Recycling of the OOV scratch vector, non-empty texts through a reused result vector and the Python scope guard are outside."),
    note="Equality of the following analysis is by argument (later operations read only the rows checked). Trusted: Kani/CBMC/cadical.",
)
