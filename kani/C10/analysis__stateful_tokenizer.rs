// C10 — mode / field-subset history: what a reused tokenizer loads vs. a fresh one with the same mode and request.
#[cfg(kani)]
mod verif_c10 {
    use super::*;
    use crate::plugin::input_text::InputTextPlugin;
    use crate::plugin::path_rewrite::PathRewritePlugin;
    use crate::dic::grammar::Grammar;
    use crate::dic::lexicon_set::LexiconSet;

    /// set_mode / set_subset never touch the dictionary
    struct NoDict;
    impl DictionaryAccess for NoDict {
        fn grammar(&self) -> &Grammar<'_> {
            unreachable!()
        }
        fn lexicon(&self) -> &LexiconSet<'_> {
            unreachable!()
        }
        fn input_text_plugins(&self) -> &[Box<dyn InputTextPlugin + Sync + Send>] {
            &[]
        }
        fn oov_provider_plugins(&self) -> &[Box<dyn OovProviderPlugin + Sync + Send>] {
            &[]
        }
        fn path_rewrite_plugins(&self) -> &[Box<dyn PathRewritePlugin + Sync + Send>] {
            &[]
        }
    }

    fn any_mode() -> Mode {
        let m: u8 = kani::any();
        kani::assume(m < 3);
        match m {
            0 => Mode::A,
            1 => Mode::B,
            _ => Mode::C,
        }
    }

    fn split_of(m: Mode) -> InfoSubset {
        match m {
            Mode::A => InfoSubset::SPLIT_A,
            Mode::B => InfoSubset::SPLIT_B,
            Mode::C => InfoSubset::empty(),
        }
    }

    fn any_subset() -> InfoSubset {
        let b: u32 = kani::any();
        InfoSubset::from_bits_truncate(b)
    }

    /// what a freshly created tokenizer with mode `m` loads for the request `r`
    fn fresh(m: Mode, r: Option<InfoSubset>) -> InfoSubset {
        let mut t = StatefulTokenizer::create(NoDict, false, m);
        // Python/CLI create the tokenizer with a mode and then apply the mode and the field request
        t.set_mode(m);
        if let Some(r) = r {
            t.set_subset(r);
        }
        let s = t.subset;
        std::mem::forget(t);
        s
    }

    //@H c10_mode_subset_history
    #[kani::proof]
    #[kani::unwind(4)]
    fn c10_mode_subset_history() {
        // arbitrary earlier history: any mode, any loaded subset that history can leave behind
        let mode0 = any_mode();
        let mut t = StatefulTokenizer::create(NoDict, false, mode0);
        let earlier_request = any_subset();
        t.set_mode(any_mode());
        t.set_subset(earlier_request);
        t.set_mode(mode0);
        // two more operations in any order: a field request r and a mode change to m (or only one of them)
        let r = any_subset();
        let m = any_mode();
        let order: u8 = kani::any();
        kani::assume(order < 4);
        let mut last_request = Some(earlier_request);
        let mut final_mode = mode0;
        match order {
            0 => {
                t.set_subset(r);
                t.set_mode(m);
                last_request = Some(r);
                final_mode = m;
            }
            1 => {
                t.set_mode(m);
                t.set_subset(r);
                last_request = Some(r);
                final_mode = m;
            }
            2 => {
                t.set_mode(m);
                final_mode = m;
            }
            _ => {
                t.set_subset(r);
                last_request = Some(r);
            }
        }
        assert!(t.mode() == final_mode);
        let want = fresh(final_mode, last_request);
        let got = t.subset;
        assert!(got.contains(want), "a reused tokenizer loads at least what a fresh one with the same mode and field request loads");
        let extra = got - want;
        assert!((extra - (InfoSubset::SPLIT_A | InfoSubset::SPLIT_B | InfoSubset::HEAD_WORD_LENGTH)).is_empty(),
            "history leaves only the split fields of earlier modes (and the key length they need) loaded in addition");
        // what the splitting code relies on, whatever the history
        assert!(got.contains(split_of(final_mode)), "the split field of the current mode is loaded");
        if got.intersects(InfoSubset::SPLIT_A | InfoSubset::SPLIT_B) {
            assert!(got.contains(InfoSubset::HEAD_WORD_LENGTH), "sub-token offsets need the key length of the split units");
        }
        kani::cover!(order == 0 && r == InfoSubset::SURFACE && m == Mode::A && mode0 == Mode::C, "request in mode C, then switch to mode A");
        kani::cover!(order == 1 && r.is_empty(), "empty request after a mode change");
        kani::cover!(order == 2 && mode0 == Mode::A && m == Mode::B, "A then B without a new request");
        std::mem::forget(t);
    }
    //@END
    /// a dictionary that offers a grammar (default character classes, empty matrix) and no plugins: enough to analyse the empty text
    struct GrammarOnly {
        g: Grammar<'static>,
    }
    impl DictionaryAccess for GrammarOnly {
        fn grammar(&self) -> &Grammar<'_> {
            &self.g
        }
        fn lexicon(&self) -> &LexiconSet<'_> {
            unreachable!()
        }
        fn input_text_plugins(&self) -> &[Box<dyn InputTextPlugin + Sync + Send>] {
            &[]
        }
        fn oov_provider_plugins(&self) -> &[Box<dyn OovProviderPlugin + Sync + Send>] {
            &[]
        }
        fn path_rewrite_plugins(&self) -> &[Box<dyn PathRewritePlugin + Sync + Send>] {
            &[]
        }
    }

    fn stale_nodes() -> Vec<ResultNode> {
        use crate::analysis::inner::Node;
        use crate::dic::word_id::WordId;
        let k: u8 = kani::any();
        kani::assume(k <= 2);
        let mut v = Vec::with_capacity(2);
        // no loop over the symbolic count (the harness needs a large unwinding bound for std::mem::swap of the buffer struct)
        if k >= 1 {
            v.push(ResultNode::new(Node::new(0, 1, 1, 1, 0, WordId::from_raw(kani::any())), kani::any(), 0, 1, Default::default()));
        }
        if k >= 2 {
            v.push(ResultNode::new(Node::new(1, 2, 1, 1, 0, WordId::from_raw(kani::any())), kani::any(), 1, 2, Default::default()));
        }
        v
    }

    /// Whatever the recycled result vector of the tokenizer and the caller's list hold (stale morphemes of earlier calls, as the
    /// swapping between tokenizer and list leaves them), analysing the EMPTY text yields no morphemes - do_tokenize returns
    /// before the path is rebuilt, so only `reset` can have emptied the vector.
    //@H c10_empty_text_after_history
    #[kani::proof]
    #[kani::unwind(6)]
    fn c10_empty_text_after_history() {
        use crate::dic::connect::ConnectionMatrix;
        let g = Grammar::verif_with_matrix(ConnectionMatrix::verif_from_vec(Vec::new(), 0, 0));
        let mut t = StatefulTokenizer::create(GrammarOnly { g }, false, any_mode());
        let stale_t = stale_nodes();
        let kt = stale_t.len();
        t.top_path = Some(stale_t);
        let mut list = stale_nodes();
        let kl = list.len();
        t.reset().push_str("");
        let r = t.do_tokenize();
        assert!(r.is_ok(), "the empty text is analysed successfully");
        // what collect_results / swap_result hands to the caller is the tokenizer's result vector (swap_result itself is three
        // std::mem::swap calls; swapping the whole InputBuffer struct needs an 80-fold unwinding of every loop, measured > 10 GB)
        std::mem::swap(t.top_path.as_mut().unwrap(), &mut list);
        assert!(list.is_empty(), "the empty text yields no morphemes, whatever tokenizer and list processed before");
        assert!(t.input.current().is_empty() && t.input.original().is_empty());
        kani::cover!(kt == 2 && kl == 0, "stale morphemes on the tokenizer side of the swap");
        kani::cover!(kt == 0 && kl == 2, "stale morphemes in the reused list");
        std::mem::forget(r);
        std::mem::forget(list);
        std::mem::forget(t);
    }
    //@END
}
