// C10-c — input buffer reuse: whatever the buffer held before, reset + a new text behaves like a fresh buffer.
#[cfg(kani)]
mod verif_c10 {
    use super::*;
    use crate::dic::connect::ConnectionMatrix;

    fn junk_usize(n: usize) -> Vec<usize> {
        let mut v = Vec::with_capacity(n);
        for _ in 0..n {
            v.push(kani::any());
        }
        v
    }

    //@H c10_buffer_reuse
    #[kani::proof]
    #[kani::unwind(8)]
    fn c10_buffer_reuse() {
        let g = Grammar::verif_with_matrix(ConnectionMatrix::verif_from_vec(Vec::new(), 0, 0));
        // arbitrary earlier content: every table holds junk left by an earlier (longer) analysis
        let mut used = InputBuffer::default();
        used.original = String::from("zzzzz");
        used.modified = String::from("yyyy");
        used.modified_2 = String::from("xxx");
        used.m2o = junk_usize(5);
        used.m2o_2 = junk_usize(6);
        used.mod_chars = vec!['q', 'r', 's', 't'];
        used.mod_c2b = junk_usize(5);
        used.mod_b2c = junk_usize(5);
        used.mod_bow = vec![kani::any(), kani::any(), kani::any(), kani::any()];
        used.mod_cat = vec![CategoryType::from_bits_retain(kani::any()), CategoryType::from_bits_retain(kani::any())];
        used.mod_cat_continuity = junk_usize(4);
        let st: u8 = kani::any();
        used.state = match st % 3 {
            0 => BufferState::Clean,
            1 => BufferState::RW,
            _ => BufferState::RO,
        };
        let mut fresh = InputBuffer::default();
        // the next input, shorter than the earlier one
        let text = "a\u{3042}";
        used.reset().push_str(text);
        fresh.reset().push_str(text);
        let (r1, r2) = (used.start_build(), fresh.start_build());
        assert!(r1.is_ok() && r2.is_ok());
        // plugins that look at characters call refresh_chars() before any edit
        used.refresh_chars();
        fresh.refresh_chars();
        assert!(used.current_chars().len() == 2 && used.current_chars()[0] == 'a' && used.current_chars()[1] == '\u{3042}',
            "characters seen by the input-text plugins are those of the new text");
        assert!(used.current().len() == 4 && used.m2o.len() == fresh.m2o.len());
        let (b1, b2) = (used.build(&g), fresh.build(&g));
        assert!(b1.is_ok() && b2.is_ok());
        assert!(used.mod_chars.len() == fresh.mod_chars.len() && used.mod_c2b.len() == fresh.mod_c2b.len() && used.mod_b2c.len() == fresh.mod_b2c.len());
        assert!(used.mod_bow.len() == fresh.mod_bow.len() && used.mod_cat.len() == fresh.mod_cat.len());
        assert!(used.mod_cat_continuity.len() == fresh.mod_cat_continuity.len() && used.m2o_2.len() == fresh.m2o_2.len());
        for i in 0..5 {
            assert!(used.m2o[i] == fresh.m2o[i] && used.mod_b2c[i] == fresh.mod_b2c[i] && used.m2o_2[i] == fresh.m2o_2[i]);
            if i < 4 {
                assert!(used.mod_bow[i] == fresh.mod_bow[i], "word-start markers do not depend on the earlier text");
            }
            if i < 3 {
                assert!(used.mod_c2b[i] == fresh.mod_c2b[i]);
            }
            if i < 2 {
                assert!(used.mod_cat[i] == fresh.mod_cat[i] && used.mod_cat_continuity[i] == fresh.mod_cat_continuity[i]);
                assert!(used.to_orig_byte_idx(i) == fresh.to_orig_byte_idx(i) && used.to_orig_char_idx(i) == fresh.to_orig_char_idx(i));
            }
        }
        kani::cover!(st % 3 == 2, "earlier analysis completed (buffer read-only)");
        kani::cover!(st % 3 == 1, "earlier analysis failed half way (buffer still writable)");
        std::mem::forget((r1, r2, b1, b2));
        std::mem::forget(used);
        std::mem::forget(fresh);
        std::mem::forget(g);
    }
    //@END
}
