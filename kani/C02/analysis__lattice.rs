// C02 — Viterbi optimality: one-step, end-of-sentence and whole-lattice harnesses.
// Included at the end of sudachi/src/analysis/lattice.rs under cfg(kani).
#[cfg(kani)]
mod /*@MOD@*/verif_c02 {
    use super::*;
    use crate::analysis::node::LatticeNode;

    // matrix: NL = ids a *left* neighbour's right_id ranges over, NR = ids a node's left_id ranges over
    const NL: usize = /*@NL@*/3;
    const NR: usize = /*@NR@*/2;
    const K: usize = /*@K@*/3;
    const LIM: i32 = 1_000_000_000;

    pub(super) fn any_matrix<const A: usize, const B: usize>() -> (ConnectionMatrix<'static>, Vec<i16>) {
        let mut cells: Vec<i16> = Vec::with_capacity(A * B);
        for _ in 0..A * B {
            cells.push(kani::any());
        }
        (ConnectionMatrix::verif_from_vec(cells.clone(), A, B), cells)
    }

    /// An arbitrary row of K already-connected-or-not left neighbours at boundary `at`.
    fn any_row(lat: &mut Lattice, at: usize) -> ([u16; K], [i32; K]) {
        let mut rid = [0u16; K];
        let mut tot = [0i32; K];
        for k in 0..K {
            let r: u16 = kani::any();
            kani::assume((r as usize) < NL);
            let t: i32 = kani::any();
            kani::assume(t == i32::MAX || (t >= -LIM && t <= LIM));
            rid[k] = r;
            tot[k] = t;
            lat.ends[at].push(VNode::new(r, t));
            // the parallel arrays always have the same length in real use
            lat.indices[at].push(NodeIdx::new(0, 0));
            lat.ends_full[at].push(Node::new(0, at as u16, 0, r, 0, WordId::from_raw(0)));
        }
        (rid, tot)
    }

    //@H c02_step
    #[kani::proof]
    #[kani::unwind(/*@UNW_STEP@*/8)]
    fn c02_step() {
        let (conn, cells) = any_matrix::<NL, NR>();
        let mut lat = Lattice::default();
        lat.reset(2);
        let (rid, tot) = any_row(&mut lat, 1);
        let left_id: u16 = kani::any();
        kani::assume((left_id as usize) < NR);
        let right_id: u16 = kani::any();
        let cost: i16 = kani::any();
        let wid: u32 = kani::any();
        let node = Node::new(1, 2, left_id, right_id, cost, WordId::from_raw(wid));

        let got = lat.insert(node, &conn);

        // oracle: plain minimum in i64 over the connected neighbours
        let mut best: i64 = i64::MAX;
        let mut any_conn = false;
        for k in 0..K {
            if tot[k] != i32::MAX {
                any_conn = true;
                let c = tot[k] as i64 + cells[left_id as usize * NL + rid[k] as usize] as i64 + cost as i64;
                if c < best {
                    best = c;
                }
            }
        }
        if any_conn {
            assert!(got as i64 == best, "stored cost is the minimum over connected left neighbours");
        } else {
            assert!(got == i32::MAX, "no connected neighbour => node is disconnected");
        }
        // what was stored
        assert!(lat.ends[2].len() == 1 && lat.indices[2].len() == 1 && lat.ends_full[2].len() == 1);
        assert!(lat.ends[2][0].total_cost == got);
        assert!(lat.ends[2][0].right_id == right_id);
        let back = lat.indices[2][0];
        if any_conn {
            assert!(back.end() == 1, "back-pointer points at the node's begin boundary");
            let bi = back.index() as usize;
            assert!(bi < K);
            assert!(tot[bi] != i32::MAX, "back-pointer never names a disconnected node");
            let c = tot[bi] as i64 + cells[left_id as usize * NL + rid[bi] as usize] as i64 + cost as i64;
            assert!(c == best, "back-pointer is an argmin");
        }
        let (n, c) = lat.node(NodeIdx::new(2, 0));
        assert!(c == got && n.begin() == 1 && n.end() == 2 && n.left_id() == left_id);
        assert!(n.cost() == cost && n.word_id().as_raw() == wid);
        // untouched rows
        assert!(lat.ends[1].len() == K && lat.ends[0].len() == 1);

        kani::cover!(any_conn && best < 0, "negative optimum");
        kani::cover!(any_conn && tot[0] == i32::MAX && tot[K - 1] != i32::MAX, "first neighbour disconnected");
        kani::cover!(!any_conn, "all neighbours disconnected");
        kani::cover!(any_conn && cost == i16::MAX && cells[0] == i16::MIN, "costs at the i16 limits");
        kani::cover!(any_conn && back.index() as usize == K - 1, "last neighbour wins");
        std::mem::forget(lat);
        std::mem::forget(conn);
        std::mem::forget(cells);
    }
    //@END

    //@H c02_step_from_bos
    #[kani::proof]
    #[kani::unwind(/*@UNW_STEP@*/8)]
    fn c02_step_from_bos() {
        // a node starting at the text start connects to BOS (right id 0, cost 0)
        let (conn, cells) = any_matrix::<NL, NR>();
        let mut lat = Lattice::default();
        lat.reset(1);
        let left_id: u16 = kani::any();
        kani::assume((left_id as usize) < NR);
        let right_id: u16 = kani::any();
        let cost: i16 = kani::any();
        let node = Node::new(0, 1, left_id, right_id, cost, WordId::from_raw(7));
        let got = lat.insert(node, &conn);
        assert!(got as i64 == cells[left_id as usize * NL] as i64 + cost as i64);
        assert!(lat.indices[1][0] == NodeIdx::new(0, 0));
        kani::cover!(got < 0, "negative");
        std::mem::forget(lat);
        std::mem::forget(conn);
        std::mem::forget(cells);
    }
    //@END

    //@H c02_eos
    #[kani::proof]
    #[kani::unwind(/*@UNW_STEP@*/8)]
    fn c02_eos() {
        let (conn, cells) = any_matrix::<NL, NR>();
        let mut lat = Lattice::default();
        lat.reset(1);
        let (rid, tot) = any_row(&mut lat, 1);
        let res = lat.connect_eos(&conn);
        let mut best: i64 = i64::MAX;
        let mut any_conn = false;
        for k in 0..K {
            if tot[k] != i32::MAX {
                any_conn = true;
                // EOS has left id 0 and cost 0
                let c = tot[k] as i64 + cells[rid[k] as usize] as i64;
                if c < best {
                    best = c;
                }
            }
        }
        match &res {
            Ok(()) => {
                assert!(any_conn, "EOS connected only through a connected node");
                let (idx, c) = lat.eos.unwrap();
                assert!(c as i64 == best, "EOS cost is the minimum over the last row");
                assert!(idx.end() == 1 && (idx.index() as usize) < K);
                let bi = idx.index() as usize;
                assert!(tot[bi] != i32::MAX);
                assert!(tot[bi] as i64 + cells[rid[bi] as usize] as i64 == best, "EOS back-pointer is an argmin");
            }
            Err(_) => {
                assert!(!any_conn, "EosBosDisconnect only when nothing is connected");
                assert!(lat.eos.is_none());
            }
        }
        kani::cover!(res.is_ok() && best < 0, "negative total");
        kani::cover!(res.is_err(), "disconnected");
        kani::cover!(res.is_ok() && lat.eos.unwrap().0.index() as usize == K - 1, "last node wins");
        std::mem::forget(res);
        std::mem::forget(lat);
        std::mem::forget(conn);
        std::mem::forget(cells);
    }
    //@END

    //@H c02_eos_empty_row
    #[kani::proof]
    #[kani::unwind(8)]
    fn c02_eos_empty_row() {
        // nothing ends at the text end: must be an error value, not a panic
        let (conn, _cells) = any_matrix::<2, 2>();
        let mut lat = Lattice::default();
        lat.reset(2);
        let res = lat.connect_eos(&conn);
        assert!(res.is_err());
        assert!(lat.eos.is_none());
        let mut p: Vec<NodeIdx> = Vec::new();
        lat.fill_top_path(&mut p);
        assert!(p.is_empty());
        std::mem::forget(res);
        std::mem::forget(lat);
        std::mem::forget(conn);
    }
    //@END

/*@GENERATED@*/
}
