"""C02 — Viterbi optimality (DESIGN §4 C02)."""
from runner import Harness

LATTICE_FNS = ["Lattice::reset", "Lattice::reset_vec", "Lattice::connect_bos", "Lattice::insert",
               "Lattice::connect_node", "ConnectionMatrix::cost", "ConnectionMatrix::index",
               "PathCost::is_connected_to_bos", "NodeIdx::new"]

# whole-lattice topologies: (name, chars, [(begin,end)...] in LatticeBuilder order, tiers)
SHAPES = [
    ("2c_homographs", 2, [(0, 1), (0, 1), (0, 2), (1, 2), (1, 2)], ("thorough",)),
    ("2c_minimal", 2, [(0, 1), (0, 2), (1, 2)], ("quick", "thorough")),
    ("3c_chain_and_long", 3, [(0, 1), (0, 3), (1, 2), (2, 3)], ("thorough",)),
    ("3c_overlaps", 3, [(0, 1), (0, 2), (1, 2), (1, 3), (2, 3)], ("thorough",)),
    ("3c_deadend_gap", 3, [(0, 2), (0, 3), (2, 3), (2, 3)], ("thorough",)),
    ("4c_fib", 4, [(0, 1), (0, 2), (1, 2), (1, 3), (2, 3), (2, 4), (3, 4)], ("thorough",)),
]
WL, WR = 2, 2


def all_paths(n, nodes):
    out = []

    def rec(pos, acc):
        if pos == n:
            out.append(list(acc))
            return
        for i, (b, e) in enumerate(nodes):
            if b == pos:
                acc.append(i)
                rec(e, acc)
                acc.pop()
    rec(0, [])
    return out


def paths_to(nodes, target):
    """all BOS->node paths ending with node `target`"""
    out = []

    def rec(pos, acc):
        for i, (b, e) in enumerate(nodes):
            if b == pos:
                acc.append(i)
                if i == target:
                    out.append(list(acc))
                elif e <= nodes[target][0]:
                    rec(e, acc)
                acc.pop()
    rec(0, [])
    return out


def path_expr(p, with_eos):
    terms = []
    prev = "0u16"
    for i in p:
        terms.append("m(&cells, %s, lid[%d])" % (prev, i))
        terms.append("cost[%d] as i64" % i)
        prev = "rid[%d]" % i
    if with_eos:
        terms.append("m(&cells, %s, 0)" % prev)
    return " + ".join(terms)


def gen_shape(name, n, nodes):
    m = len(nodes)
    paths = all_paths(n, nodes)
    assert paths
    L = []
    a = L.append
    a("    //@H c02_whole_%s" % name)
    a("    #[kani::proof]")
    a("    #[kani::unwind(%d)]" % (max(m, WL * WR, n) + 3))
    a("    fn c02_whole_%s() {" % name)
    a("        fn m(cells: &Vec<i16>, l: u16, r: u16) -> i64 { cells[r as usize * %d + l as usize] as i64 }" % WL)
    a("        let (conn, cells) = any_matrix::<%d, %d>();" % (WL, WR))
    a("        let mut lat = Lattice::default();")
    a("        lat.reset(%d);" % n)
    a("        let mut lid = [0u16; %d]; let mut rid = [0u16; %d]; let mut cost = [0i16; %d];" % (m, m, m))
    a("        for i in 0..%d {" % m)
    a("            let l: u16 = kani::any(); kani::assume((l as usize) < %d);" % WR)
    a("            let r: u16 = kani::any(); kani::assume((r as usize) < %d);" % WL)
    a("            lid[i] = l; rid[i] = r; cost[i] = kani::any();")
    a("        }")
    for i, (b, e) in enumerate(nodes):
        a("        let t%d = lat.insert(Node::new(%d, %d, lid[%d], rid[%d], cost[%d], WordId::from_raw(%d)), &conn);" % (i, b, e, i, i, i, i))
    a("        let res = lat.connect_eos(&conn);")
    a("        assert!(res.is_ok());")
    a("        let (_eidx, ecost) = lat.eos.unwrap();")
    for k, p in enumerate(paths):
        a("        let p%d: i64 = %s;" % (k, path_expr(p, True)))
    a("        let mut best = p0;")
    for k in range(1, len(paths)):
        a("        if p%d < best { best = p%d; }" % (k, k))
    a('        assert!(ecost as i64 == best, "EOS cost is the minimum over all BOS->EOS paths");')
    # per-node optimal prefix
    for i in range(m):
        pt = paths_to(nodes, i)
        a("        let mut b%d: i64 = %s;" % (i, path_expr(pt[0], False)))
        for q in pt[1:]:
            a("        { let c: i64 = %s; if c < b%d { b%d = c; } }" % (path_expr(q, False), i, i))
        a('        assert!(t%d as i64 == b%d, "stored cost of node %d is its optimal prefix cost");' % (i, i, i))
    # walk the returned path
    a("        let mut path: Vec<NodeIdx> = Vec::with_capacity(%d);" % (n + 1))
    a("        lat.fill_top_path(&mut path);")
    a("        let plen = path.len();")
    a("        assert!(plen >= 1 && plen <= %d);" % n)
    a("        let mut pos: usize = 0; let mut acc: i64 = 0; let mut prev_r: u16 = 0;")
    a("        let mut j = plen;")
    a("        while j > 0 {")
    a("            j -= 1;")
    a("            let (nd, tot) = lat.node(path[j]);")
    a('            assert!(nd.begin() == pos, "returned path is gap-free and ordered");')
    a("            assert!(nd.end() > nd.begin());")
    a("            let w = nd.word_id().as_raw() as usize;")
    a("            assert!(w < %d && nd.left_id() == lid[w] && nd.right_id() == rid[w] && nd.cost() == cost[w]);" % m)
    a("            acc += m(&cells, prev_r, nd.left_id()) + nd.cost() as i64;")
    a('            assert!(tot as i64 == acc, "cumulative cost reported for a path node equals the recomputed prefix sum");')
    a("            prev_r = nd.right_id();")
    a("            pos = nd.end();")
    a("        }")
    a('        assert!(pos == %d, "path ends at the text end");' % n)
    a('        assert!(acc + m(&cells, prev_r, 0) == best, "returned path attains the minimum");')
    a('        kani::cover!(best < 0, "negative optimum");')
    if len(paths) > 1:
        a('        kani::cover!(p0 == p1 && p0 == best, "tie between two optimal paths");')
        a('        kani::cover!(plen == %d, "longest path chosen");' % max(len(p) for p in paths))
        a('        kani::cover!(plen == %d, "shortest path chosen");' % min(len(p) for p in paths))
    a("        std::mem::forget(res); std::mem::forget(path); std::mem::forget(lat); std::mem::forget(conn); std::mem::forget(cells);")
    a("    }")
    a("    //@END")
    return "\n".join(L), len(paths)


def params(ctx):
    p = {"quick": dict(NL=3, NR=2, K=3, UNW_STEP=8), "thorough": dict(NL=4, NR=3, K=4, UNW_STEP=14)}[ctx.tier]
    gen = [gen_shape(n, c, nodes)[0] for (n, c, nodes, tiers) in SHAPES if ctx.tier in tiers]
    p["GENERATED"] = "\n\n".join(gen)
    p["MOD"] = "verif_c02"
    return p


def harnesses(ctx):
    q = ctx.tier == "quick"
    k, nl, nr = (3, 3, 2) if q else (4, 4, 3)
    step_assume = ["left neighbours' right ids < %d and the node's left id < %d (ids validated at load: C06/C20)" % (nl, nr),
                   "each left neighbour's cumulative cost is i32::MAX (disconnected) or within +-1e9 (no-overflow region; overflow is C03)"]
    hs = [
        Harness("c02_step", "analysis__lattice", LATTICE_FNS,
                "K=%d arbitrary left neighbours, %dx%d matrix of arbitrary i16, arbitrary node ids/cost/word id" % (k, nl, nr),
                kernel="C02-a one Viterbi step (inductive step over lattice rows)", assumptions=step_assume,
                fs_array=True, timeout_s=900 if q else 2700, mem_gb=12 if q else 30,
                outside=["more than %d neighbours per boundary" % k, "more than 65535 nodes ending at one boundary (`i as u16` truncation)"]),
        Harness("c02_step_from_bos", "analysis__lattice", LATTICE_FNS, "first node after BOS, %dx%d matrix" % (nl, nr),
                kernel="C02-a step from BOS", assumptions=step_assume[:1], fs_array=True, timeout_s=600),
        Harness("c02_eos", "analysis__lattice", ["Lattice::connect_eos", "Lattice::connect_node", "ConnectionMatrix::cost"],
                "K=%d arbitrary nodes in the last row, %dx%d matrix" % (k, nl, nr), kernel="C02-b end of sentence",
                assumptions=step_assume, fs_array=True, timeout_s=900 if q else 2700, mem_gb=12 if q else 30),
        Harness("c02_eos_empty_row", "analysis__lattice", ["Lattice::connect_eos", "Lattice::fill_top_path"],
                "no node ends at the text end", kernel="C02-b end of sentence, empty row", fs_array=True, timeout_s=600),
    ]
    for (name, n, nodes, tiers) in SHAPES:
        if ctx.tier not in tiers:
            continue
        _, npaths = gen_shape(name, n, nodes)
        heavy = n >= 3
        hs.append(Harness(
            "c02_whole_" + name, "analysis__lattice",
            LATTICE_FNS + ["Lattice::connect_eos", "Lattice::fill_top_path", "Lattice::node"],
            "topology %s over %d characters (%d nodes, %d BOS->EOS paths), every id, word cost and the %dx%d matrix arbitrary" % (
                nodes, n, len(nodes), npaths, WL, WR),
            kernel="C02-c whole lattice vs. explicit path enumeration (also C01-c: returned path is gap-free)",
            assumptions=["ids < matrix dimensions", "nodes inserted in LatticeBuilder order (ascending begin)"],
            shape={"chars": n, "spans": nodes, "paths": npaths}, fs_array=True,
            timeout_s=(1500 if q else 3000) if heavy else 900, mem_gb=(16 if q else 36) if heavy else 12,
            required=not heavy or not q,
            outside=["topologies outside the enumerated family", "which candidate words are inserted (C04, C13)"]))
    return hs


OUTSIDE = [
    "LatticeBuilder::build_lattice's own loop (dyn plugins) and resolve_best_path's word-info loading",
    "lattices wider than the stated bounds; lifted to any length only by the (unchecked) induction argument in DESIGN §4 C02",
    "cost sums beyond +-1e9 (overflow region: C03)",
]
EXPLANATION = ("Bounded model checking of the real Lattice code: an inductive step (arbitrary row of left neighbours -> one inserted "
               "node), the EOS step, and whole small lattices compared with an explicit enumeration of all paths in i64.")

MANIFEST = dict(
    design_ref="DESIGN.md §4 C02",
    technique="bounded model checking of the compiled Rust (Kani 0.68 -> CBMC 6.11 -> cadical SAT): symbolic ids/costs/matrix, oracle = explicit path enumeration in i64",
    text=("For every value of the symbolic inputs inside the stated bounds the solver shows: (a) one Lattice::insert from an arbitrary row of "
          "left neighbours stores the minimum over connected neighbours and an argmin back-pointer; (b) connect_eos picks the minimum over the "
          "last row and errs exactly when nothing is connected; (c) for small enumerated topologies the EOS cost, every stored prefix cost and "
          "the walked path equal the explicit minimum over all BOS->EOS paths, and every reported cumulative cost equals the recomputed prefix sum. "
          "Bounded (K neighbours, matrix size, topologies) and compositional: the lift to arbitrary length is an induction argument that is written "
          "down, not machine-checked. This is the right level because the risk sits in index/cost arithmetic at rare values, which a SAT query covers completely."),
    note=("Assumes ids below the matrix dimensions (validated at load, C06/C20) and neighbour totals within +-1e9; trusted base: Kani's MIR->goto "
          "translation, CBMC, cadical, the harness oracles. Which candidate words enter the lattice is C04/C13, not this check."),
)
