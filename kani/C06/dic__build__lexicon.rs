// C06 — post-parse validation of connection ids and word references.
#[cfg(kani)]
mod verif_c06 {
    use super::*;
    use crate::error::SudachiError;

    fn stub_format(_a: std::fmt::Arguments<'_>) -> String {
        String::new()
    }

    const NE: usize = /*@NE@*/1;

    // error *values* are irrelevant to the property (only Ok/Err matters); building DicBuildError
    // (String clone + large enum moves) dominates the formula otherwise
    fn stub_err<T, E: Into<BuildFailure>>(_c: &DicCompilationCtx, reason: E) -> SudachiResult<T> {
        std::mem::forget(reason);
        Err(SudachiError::EosBosDisconnect)
    }

    fn stub_cold<E: Into<BuildFailure>>(_c: &DicCompilationCtx, reason: E) -> SudachiError {
        std::mem::forget(reason);
        SudachiError::EosBosDisconnect
    }

    fn any_ref() -> WordId {
        // everything parse_wordid can produce: dictionary 0 or 1, any 28-bit word number
        let dic: u8 = kani::any();
        kani::assume(dic <= 1);
        let w: u32 = kani::any();
        kani::assume(w <= WordId::MAX_WORD);
        WordId::new(dic, w)
    }

    fn any_entry() -> RawLexiconEntry {
        let has_dic_form: bool = kani::any();
        RawLexiconEntry {
            left_id: kani::any(),
            right_id: kani::any(),
            cost: kani::any(),
            surface: String::new(),
            headword: None,
            dic_form: if has_dic_form { any_ref() } else { WordId::INVALID },
            norm_form: None,
            pos: 0,
            splits_a: vec![SplitUnit::Ref(any_ref())],
            splits_b: Vec::new(),
            reading: None,
            splitting: Mode::C,
            word_structure: vec![any_ref()],
            synonym_groups: Vec::new(),
        }
    }

    fn ref_ok(w: WordId, max0: usize, max1: usize) -> bool {
        if w.dic() == 0 {
            (w.word() as usize) < max0
        } else {
            (w.word() as usize) < max1
        }
    }

    //@H c06_validate_entries
    #[kani::proof]
    #[kani::unwind(4)]
    #[kani::stub(alloc::fmt::format, stub_format)]
    #[kani::stub(DicCompilationCtx::err, stub_err)]
    #[kani::stub(DicCompilationCtx::to_sudachi_err_cold, stub_cold)]
    fn c06_validate_entries() {
        let mut rd = LexiconReader {
            pos: IndexMap::with_hasher(unsafe { std::mem::zeroed() }), // RandomState::new() would call getrandom (unsupported by Kani); the map is unused here
            ctx: DicCompilationCtx::default(),
            entries: Vec::new(),
            unresolved: 0,
            start_pos: 0,
            max_left: kani::any(),
            max_right: kani::any(),
            num_system: usize::MAX,
        };
        kani::assume(rd.max_left >= 0 && rd.max_right >= 0);
        let user: bool = kani::any();
        if user {
            let ns: usize = kani::any();
            kani::assume(ns < 1000);
            rd.num_system = ns;
        }
        for _ in 0..NE {
            rd.entries.push(any_entry());
        }
        let (max0, max1) = if user { (rd.num_system, NE) } else { (NE, 0usize) };

        let r = rd.validate_entries();

        if r.is_ok() {
            for i in 0..NE {
                let e = &rd.entries[i];
                assert!(e.left_id < rd.max_left, "left id below the matrix size");
                if e.left_id >= 0 {
                    assert!(e.right_id >= 0 && e.right_id < rd.max_right,
                        "an indexed entry's right id lies inside the matrix");
                }
                if e.dic_form != WordId::INVALID {
                    assert!(ref_ok(e.dic_form, max0, max1), "dictionary form points to an existing entry");
                }
                match &e.splits_a[0] {
                    SplitUnit::Ref(w) => assert!(ref_ok(*w, max0, max1), "split unit points to an existing entry"),
                    _ => {}
                }
                assert!(ref_ok(e.word_structure[0], max0, max1), "word structure points to an existing entry");
            }
        }
        kani::cover!(r.is_ok() && !user, "valid system lexicon");
        kani::cover!(r.is_ok() && user && rd.entries[0].dic_form.dic() == 1, "valid user lexicon with a U-reference");
        kani::cover!(r.is_ok() && rd.entries[0].left_id == -1, "valid non-indexed entry");
        kani::cover!(r.is_err() && rd.entries[0].left_id == rd.max_left, "left id == matrix size rejected");
        kani::cover!(r.is_err() && !user && rd.entries[NE - 1].word_structure[0].word() as usize == NE, "reference == entry count rejected");
        std::mem::forget(r);
        std::mem::forget(rd);
    }
    //@END
}
