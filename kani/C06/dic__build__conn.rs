// C06 — connection-matrix element placement in the dictionary compiler.
#[cfg(kani)]
mod verif_c06 {
    use super::*;

    fn stub_format(_a: std::fmt::Arguments<'_>) -> String {
        String::new()
    }

    fn write_elem_shape<const NL: usize, const NR: usize>() {
        let mut cb = ConnBuffer::new();
        cb.num_left = NL as i16;
        cb.num_right = NR as i16;
        let mut before = [0u8; 64];
        for i in 0..NL * NR * 2 {
            let b: u8 = kani::any();
            before[i] = b;
            cb.matrix.push(b);
        }
        let left: i16 = kani::any();
        let right: i16 = kani::any();
        let cost: i16 = kani::any();
        let in_range = left >= 0 && (left as usize) < NL && right >= 0 && (right as usize) < NR;
        // must not panic for any coordinates read from a matrix text
        let r = cb.write_elem(left, right, cost);
        assert!(cb.matrix.len() == NL * NR * 2);
        match &r {
            Ok(()) => {
                assert!(in_range, "success only for coordinates inside the declared matrix");
                let idx = (right as usize * NL + left as usize) * 2;
                let bytes = cost.to_le_bytes();
                for i in 0..NL * NR * 2 {
                    if i == idx {
                        assert!(cb.matrix[i] == bytes[0]);
                    } else if i == idx + 1 {
                        assert!(cb.matrix[i] == bytes[1]);
                    } else {
                        assert!(cb.matrix[i] == before[i], "no other cell is written");
                    }
                }
            }
            Err(_) => {
                assert!(!in_range, "in-range coordinates are accepted");
                for i in 0..NL * NR * 2 {
                    assert!(cb.matrix[i] == before[i], "a rejected element leaves the matrix untouched");
                }
            }
        }
        kani::cover!(r.is_ok() && left as usize == NL - 1 && right as usize == NR - 1, "last cell");
        kani::cover!(r.is_err() && left as usize == NL && right == 0, "left == number of rows");
        kani::cover!(r.is_err() && left == 0 && right as usize == NR, "right == number of columns");
        kani::cover!(r.is_err() && left < 0, "negative coordinate");
        std::mem::forget(r);
        std::mem::forget(cb);
    }

    //@H c06_write_elem_3x2
    #[kani::proof]
    #[kani::unwind(14)]
    #[kani::stub(alloc::fmt::format, stub_format)]
    fn c06_write_elem_3x2() {
        write_elem_shape::<3, 2>();
    }
    //@END

    //@H c06_write_elem_1x1
    #[kani::proof]
    #[kani::unwind(4)]
    #[kani::stub(alloc::fmt::format, stub_format)]
    fn c06_write_elem_1x1() {
        write_elem_shape::<1, 1>();
    }
    //@END

    //@H c06_write_elem_2x3
    #[kani::proof]
    #[kani::unwind(14)]
    #[kani::stub(alloc::fmt::format, stub_format)]
    fn c06_write_elem_2x3() {
        write_elem_shape::<2, 3>();
    }
    //@END

    /// element placement agrees with the reader: what write_elem stores at (l, r) is what
    /// ConnectionMatrix::cost(l, r) returns (C05-e / C02-d matrix orientation end to end)
    //@H c06_write_then_read_3x2
    #[kani::proof]
    #[kani::unwind(14)]
    #[kani::stub(alloc::fmt::format, stub_format)]
    fn c06_write_then_read_3x2() {
        use crate::dic::connect::ConnectionMatrix;
        const NL: usize = 3;
        const NR: usize = 2;
        let mut cb = ConnBuffer::new();
        cb.num_left = NL as i16;
        cb.num_right = NR as i16;
        for _ in 0..NL * NR * 2 {
            cb.matrix.push(0);
        }
        let left: i16 = kani::any();
        let right: i16 = kani::any();
        let cost: i16 = kani::any();
        kani::assume(left >= 0 && (left as usize) < NL && right >= 0 && (right as usize) < NR);
        kani::assume(cost != 0);
        let r = cb.write_elem(left, right, cost);
        assert!(r.is_ok());
        let mut cells: Vec<i16> = Vec::with_capacity(NL * NR);
        for i in 0..NL * NR {
            cells.push(i16::from_le_bytes([cb.matrix[2 * i], cb.matrix[2 * i + 1]]));
        }
        let m = ConnectionMatrix::verif_from_vec(cells, NL, NR);
        for rr in 0..NR {
            for ll in 0..NL {
                let c = m.cost(ll as u16, rr as u16);
                if ll == left as usize && rr == right as usize {
                    assert!(c == cost, "the cost written for (left,right) is the cost read for (left,right)");
                } else {
                    assert!(c == 0);
                }
            }
        }
        kani::cover!(left == 2 && right == 1, "last cell");
        kani::cover!(left == 1 && right == 0, "off-diagonal cell");
        std::mem::forget(r);
        std::mem::forget(cb);
        std::mem::forget(m);
    }
    //@END
}
