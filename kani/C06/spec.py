"""C06 — the dictionary compiler is total and never emits an invalid dictionary (DESIGN §4 C06)."""
import os
import re
from runner import Harness

HERE = os.path.dirname(os.path.abspath(__file__))


def generate(ctx):
    """format limits: the length-prefix and array-limit harnesses of C05 (same text, module verif_c06_limits)"""
    t = open(os.path.join(HERE, "..", "C05", "dic__build__primitives.rs")).read()
    keep = []
    for m in re.finditer(r"^[ \t]*//@H (c05_len_prefix|c05_u32_array_limits)[ \t]*\n.*?^[ \t]*//@END[ \t]*\n", t, flags=re.M | re.S):
        keep.append(m.group(0).replace("c05_", "c06_limits_"))
    head = t[:t.index("    //@H c05_len_prefix")].replace("mod verif_c05", "mod verif_c06_limits")
    return {"dic__build__primitives": head + "\n".join(keep) + "}\n"}


def params(ctx):
    return {"NE": 1 if ctx.tier == "quick" else 2}


def harnesses(ctx):
    hs = []
    ne = 1 if ctx.tier == "quick" else 2
    for shape in ("3x2", "1x1", "2x3"):
        hs.append(Harness("c06_write_elem_" + shape, "dic__build__conn", ["ConnBuffer::write_elem"],
                          "every (left, right, cost) i16 triple on a %s matrix buffer of arbitrary bytes" % shape,
                          kernel="C06-a matrix element placement: no panic, success only in range, exactly one cell written",
                          stubs=["alloc::fmt::format -> empty string"], timeout_s=600, mem_gb=8,
                          outside=["matrix shapes other than 3x2, 1x1, 2x3", "the regex-based line splitting in front of write_elem"]))
    hs.append(Harness("c06_write_then_read_3x2", "dic__build__conn", ["ConnBuffer::write_elem", "ConnectionMatrix::cost", "ConnectionMatrix::index"],
                      "every in-range (left, right) and non-zero cost on a 3x2 matrix",
                      kernel="C06-a/C05-e writer and reader agree on the matrix orientation", timeout_s=600, mem_gb=8,
                      stubs=["alloc::fmt::format -> empty string"]))
    hs.append(Harness("c06_validate_entries", "dic__build__lexicon", ["LexiconReader::validate_entries", "LexiconReader::validate_wid",
                                                                     "RawLexiconEntry::should_index", "DicCompilationCtx::{err,transform}"],
                      "%d entries with arbitrary i16 left/right ids, optional dictionary form, one A-split reference, one word-structure reference "
                      "(dictionary 0/1, any 28-bit word number); arbitrary non-negative matrix sizes; system or user (num_system < 1000) compilation" % ne,
                      kernel="C06-b validation is sound: Ok => ids inside the matrix and references point to existing entries",
                      assumptions=["references carry dictionary number 0 or 1 (all parse_wordid can produce)", "splits already resolved to references"],
                      stubs=["alloc::fmt::format -> empty string"], timeout_s=900 if ne == 1 else 3000, mem_gb=12 if ne == 1 else 36,
                      outside=["more than %d entries" % ne + " / more than one reference per list (same loop body)"]))
    hs.append(Harness("c06_limits_len_prefix", "dic__build__primitives", ["Utf16Writer::write_len", "string_length_parser"], "every usize length",
                      kernel="C06-c strings respect the format limits: a length the writer accepts is written in the form the reader decodes (1 byte below 127, else 2 bytes), > 32767 rejected - "
                             "so a successfully compiled string field never mis-frames the record",
                      stubs=["alloc::fmt::format -> empty string"], timeout_s=600, mem_gb=8, rust_mod="verif_c06_limits"))
    hs.append(Harness("c06_limits_u32_array_limits", "dic__build__primitives", ["write_u32_array"], "0 and 128 items of one arbitrary value",
                      kernel="C06-c arrays respect the format limits: 128 items rejected before anything is written", stubs=["alloc::fmt::format -> empty string"], timeout_s=900, mem_gb=10,
                      rust_mod="verif_c06_limits"))
    return hs


OUTSIDE = ["CSV / regex-level parsing of arbitrary bytes", "split resolution", "that the produced dictionary loads and analyses (C05 covers the codecs)",
           "sink failures (every write goes through `?`; Write errors are io::Error whose drop glue CBMC cannot finish)"]
EXPLANATION = "Kernel-level: element placement and validation, for all numeric values."
MANIFEST = dict(
    design_ref="DESIGN.md §4 C06",
    technique="bounded model checking (Kani/CBMC/cadical): symbolic i16 matrix coordinates through ConnBuffer::write_elem; symbolic entry ids and references through LexiconReader::validate_entries; every usize length through Utf16Writer::write_len and the reader",
    text=("Kernel-level claim. For every i16 (left,right,cost) on 3x2, 1x1 and 2x3 buffers write_elem never panics, succeeds only for coordinates inside the declared matrix and "
          "then writes exactly that cell (which ConnectionMatrix::cost reads back at the same coordinates); for every combination of ids and references of two entries "
          "validate_entries returning Ok implies every indexed entry's ids lie inside the matrix and every dictionary-form/split/word-structure reference points to an "
          "existing entry; every string length the writer accepts is written in the form the reader decodes (1 byte below 127 units, else 2 bytes; above 32,767 rejected) and arrays above 127 items are rejected before anything is written. 'Total for any byte sequence' as a whole is NOT claimed: CSV/regex parsing is outside a SAT solver's reach."),
    note="fmt::format stubbed on error paths; references restricted to what parse_wordid can produce. Trusted: Kani/CBMC/cadical.",
)
