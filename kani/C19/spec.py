"""C19 — bindings and CLI report what the core computes: only the CLI line-terminator kernel is decidable (DESIGN §4 C19)."""
from runner import Harness


def params(ctx):
    n = 4 if ctx.tier == "quick" else 7
    return {"N": n, "UNW": 3 * n + 4}


def harnesses(ctx):
    n = 4 if ctx.tier == "quick" else 7
    return [Harness("c19_strip_eol", "cli__main", ["sudachi-cli::strip_eol"],
                    "every string of <= %d atoms over {\\n, \\r, a, U+3042}" % n,
                    kernel="C19 CLI: each input line is analysed without its line terminator; a blank line becomes the empty string",
                    package="sudachi-cli", timeout_s=600, mem_gb=8,
                    outside=["everything behind PyO3 and the CLI's I/O, formatting and sentence splitting"])]


OUTSIDE = ["Python API equality with the Rust library, begin()/end() in code points, mode override/out-list reuse, interpreter safety (PyO3: not encodable)",
           "CLI column formatting and per-sentence printing (I/O)"]
EXPLANATION = "The one arithmetic kernel of C19: strip_eol over all short strings of line-terminator and multi-byte atoms."
MANIFEST = dict(
    design_ref="DESIGN.md §4 C19",
    technique="bounded model checking (Kani/CBMC/cadical) of sudachi-cli::strip_eol over all strings of terminator/1-byte/3-byte atoms up to the bound",
    text=("Claimed for ONE clause of C19 only: 'the command-line tool analyses each input line without its line terminator (a blank line yields an empty analysis)'. "
          "The solver decides strip_eol for every string of up to 4 (quick) / 7 (thorough) atoms from {\\n, \\r, 'a', U+3042}: the result is the input minus exactly one "
          "trailing \\n or \\r\\n. Everything else C19 states (Python objects, column format, list reuse, interpreter safety) sits behind PyO3 or I/O and is outside the claim."),
    note="Only strip_eol is covered; the rest of C19 is not decidable with this technique and is not claimed. Trusted: Kani/CBMC/cadical.",
)
