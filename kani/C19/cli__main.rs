// C19 — CLI line-terminator stripping (the only solver-decidable kernel of C19).
#[cfg(kani)]
mod verif_c19 {
    use super::*;

    const N: usize = /*@N@*/4;

    /// A string of <= N "atoms", each one of "\n", "\r", "a", "あ" (valid UTF-8 by construction).
    //@H c19_strip_eol
    #[kani::proof]
    #[kani::unwind(/*@UNW@*/16)]
    fn c19_strip_eol() {
        let n: usize = kani::any();
        kani::assume(n <= N);
        let mut buf = [0u8; 3 * N];
        let mut len = 0usize;
        for i in 0..N {
            if i < n {
                let a: u8 = kani::any();
                kani::assume(a < 4);
                match a {
                    0 => { buf[len] = b'\n'; len += 1; }
                    1 => { buf[len] = b'\r'; len += 1; }
                    2 => { buf[len] = b'a'; len += 1; }
                    _ => { buf[len] = 0xE3; buf[len + 1] = 0x81; buf[len + 2] = 0x82; len += 3; }
                }
            }
        }
        let s: &str = unsafe { std::str::from_utf8_unchecked(&buf[..len]) };
        let out = strip_eol(s).as_bytes();
        // oracle: input minus exactly one trailing "\n" or "\r\n"
        let mut want = len;
        if want >= 1 && buf[want - 1] == b'\n' {
            want -= 1;
            if want >= 1 && buf[want - 1] == b'\r' {
                want -= 1;
            }
        }
        assert!(out.len() == want, "line terminator (\\n or \\r\\n) removed, nothing else");
        assert!(out.as_ptr() == buf.as_ptr(), "result is a prefix of the input");
        kani::cover!(len == 1 && buf[0] == b'\n', "blank line \\n");
        kani::cover!(len == 2 && buf[0] == b'\r' && buf[1] == b'\n', "blank line \\r\\n");
        kani::cover!(len >= 4 && buf[len - 1] == b'\n' && buf[len - 2] == 0x82, "multi-byte character before the terminator");
        kani::cover!(want == len && len > 0, "no terminator (last line of a file)");
        kani::cover!(len >= 3 && buf[len - 1] == b'\n' && buf[len - 2] == b'\n', "only one terminator is removed");
    }
    //@END
}
