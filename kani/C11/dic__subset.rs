// C11 — subset closure: what the tokenizer adds to a requested field set.
#[cfg(kani)]
mod verif_c11 {
    use super::*;

    //@H c11_normalize_closure
    #[kani::proof]
    fn c11_normalize_closure() {
        let bits: u32 = kani::any();
        let s = InfoSubset::from_bits_truncate(bits);
        let n = s.normalize();
        assert!(n.contains(s), "normalize never drops a requested field");
        assert!(n.normalize() == n, "normalize is idempotent");
        // accessors of these three forms fall back to the surface when the stored form is empty
        //@KF F-C11-1: s.contains(InfoSubset::DIC_FORM_WORD_ID) && !s.intersects(InfoSubset::SURFACE | InfoSubset::READING_FORM | InfoSubset::NORMALIZED_FORM)
        if s.intersects(InfoSubset::NORMALIZED_FORM | InfoSubset::READING_FORM | InfoSubset::DIC_FORM_WORD_ID) {
            assert!(n.contains(InfoSubset::SURFACE), "a requested form implies the surface it may fall back to");
        }
        if s.intersects(InfoSubset::SPLIT_A | InfoSubset::SPLIT_B) {
            assert!(n.contains(InfoSubset::HEAD_WORD_LENGTH), "splits need the key length");
        }
        let added = n - s;
        assert!((added - (InfoSubset::SURFACE | InfoSubset::HEAD_WORD_LENGTH)).is_empty(), "nothing else is added");
        // monotone
        let bits2: u32 = kani::any();
        let t = InfoSubset::from_bits_truncate(bits2);
        if t.contains(s) {
            assert!(t.normalize().contains(n), "normalize is monotone");
        }
        kani::cover!(s == InfoSubset::READING_FORM, "reading only");
        kani::cover!(s == InfoSubset::SPLIT_B, "split B only");
        kani::cover!(s.is_empty(), "empty request");
        kani::cover!(s == InfoSubset::all(), "everything");
    }
    //@END
}
