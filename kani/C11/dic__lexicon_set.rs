// C11 (d) - the user-dictionary fix-ups are applied to every loaded field, whatever else was (not) requested:
// LexiconSet::get_word_info_subset on a word of the second user dictionary, for every non-empty combination of the three reference lists.
#[cfg(kani)]
mod verif_c11_set {
    use super::*;

    fn stub_format(_a: std::fmt::Arguments<'_>) -> String {
        String::new()
    }

    /// `which`: bit 0 = A split, bit 1 = B split, bit 2 = word structure (concrete per harness; a symbolic request multiplies the parser paths)
    fn subset_restamp(d: u8, which: u8) {
        let a: u32 = kani::any();
        let b: u32 = kani::any();
        let w: u32 = kani::any();
        let (ab, bb, wb) = (a.to_le_bytes(), b.to_le_bytes(), w.to_le_bytes());
        let img: &'static [u8] = Box::leak(Box::new([
            4u8, 0, 0, 0,
            0, 1, 0, 0, 0, 0xff, 0xff, 0xff, 0xff, 0, // surface "" | key length 1 | pos 0 | norm "" | dic form -1 | reading ""
            1, ab[0], ab[1], ab[2], ab[3], // A split: one reference
            1, bb[0], bb[1], bb[2], bb[3], // B split: one reference
            1, wb[0], wb[1], wb[2], wb[3], // word structure: one reference
            0,
        ]));
        let mut set = LexiconSet::new(Lexicon::verif_with_infos(img, 1, false), 3);
        let _ = set.append(Lexicon::verif_with_infos(img, 1, false), 3);
        let _ = set.append(Lexicon::verif_with_infos(img, 1, false), 3);
        let mut subset = InfoSubset::empty();
        if which & 1 != 0 {
            subset |= InfoSubset::SPLIT_A;
        }
        if which & 2 != 0 {
            subset |= InfoSubset::SPLIT_B;
        }
        if which & 4 != 0 {
            subset |= InfoSubset::WORD_STRUCTURE;
        }
        let r = set.get_word_info_subset(WordId::new(d, 0), subset);
        assert!(r.is_ok());
        // the value a load of all fields reports: references to the system dictionary as stored, others in the owning dictionary
        let full = |raw: u32| -> WordId {
            let id = WordId::from_raw(raw);
            if id.dic() == 0 { id } else { WordId::new(d, id.word()) }
        };
        if let Ok(wi) = &r {
            if which & 1 != 0 {
                assert!(wi.a_unit_split().len() == 1 && wi.a_unit_split()[0] == full(a), "requested A split equals its full-load value");
            } else {
                assert!(wi.a_unit_split().len() == 0, "A split not requested: empty");
            }
            if which & 2 != 0 {
                assert!(wi.b_unit_split().len() == 1 && wi.b_unit_split()[0] == full(b), "requested B split equals its full-load value");
            } else {
                assert!(wi.b_unit_split().len() == 0, "B split not requested: empty");
            }
            if which & 4 != 0 {
                assert!(wi.word_structure().len() == 1 && wi.word_structure()[0] == full(w), "requested word structure equals its full-load value");
            } else {
                assert!(wi.word_structure().len() == 0, "word structure not requested: empty");
            }
        }
        kani::cover!(WordId::from_raw(a).dic() == 1 && WordId::from_raw(b).dic() == 1 && WordId::from_raw(w).dic() == 1, "all three written as references into the own dictionary");
        kani::cover!(WordId::from_raw(a).dic() == 0 && WordId::from_raw(w).dic() == 1, "mixed system / own-dictionary references");
        std::mem::forget(r);
        std::mem::forget(set);
    }

/*@GENERATED_SET@*/
}
