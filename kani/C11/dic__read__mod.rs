// C11 — skip functions leave exactly the remainder their parsing twins leave.
#[cfg(kani)]
mod verif_c11 {
    use super::*;
    use crate::dic::read::u16str::{skip_u16_string, utf16_string_parser};

    const N: usize = /*@NBUF@*/10;
    const NS: usize = 5; // bound of the replay-only siblings

    fn any_buf() -> ([u8; N], usize) {
        let buf: [u8; N] = kani::any();
        let len: usize = kani::any();
        kani::assume(len <= N);
        (buf, len)
    }

    // replay-only siblings of the skip harnesses: same assertion, tiny buffers (Kani's concrete-playback mode
    // disables formula slicing; the 10-byte harnesses exceed 40 GB there)
    #[kani::proof]
    #[kani::unwind(4)]
    fn c11_skip_small_str() {
        let buf: [u8; 4] = kani::any();
        kani::assume(buf[0] == 0 || (buf[0] == 0x80 && buf[1] == 0));
        let parsed = utf16_string_parser(&buf);
        if let Ok((rest, _)) = &parsed {
            let skipped = skip_u16_string(&buf);
            assert!(skipped.is_ok());
            if let Ok((rest2, _)) = &skipped {
                assert!(rest2.len() == rest.len(), "skip and parse leave the same remainder");
            }
            std::mem::forget(skipped);
        }
        std::mem::forget(parsed);
    }

    #[kani::proof]
    #[kani::unwind(4)]
    fn c11_skip_small_wid() {
        let buf: [u8; NS] = kani::any();
        kani::assume(buf[0] <= 1);
        let parsed = u32_wid_array_parser(&buf);
        if let Ok((rest, _)) = &parsed {
            let skipped = skip_wid_array(&buf);
            assert!(skipped.is_ok());
            if let Ok((rest2, _)) = &skipped {
                assert!(rest2.len() == rest.len(), "skip and parse leave the same remainder");
            }
            std::mem::forget(skipped);
        }
        std::mem::forget(parsed);
    }

    #[kani::proof]
    #[kani::unwind(4)]
    fn c11_skip_small_u32() {
        let buf: [u8; NS] = kani::any();
        kani::assume(buf[0] <= 1);
        let parsed = u32_array_parser(&buf);
        if let Ok((rest, _)) = &parsed {
            let skipped = skip_u32_array(&buf);
            assert!(skipped.is_ok());
            if let Ok((rest2, _)) = &skipped {
                assert!(rest2.len() == rest.len(), "skip and parse leave the same remainder");
            }
            std::mem::forget(skipped);
        }
        std::mem::forget(parsed);
    }

    //@H c11_skip_wid_array
    #[kani::proof]
    #[kani::unwind(/*@UNW@*/6)]
    fn c11_skip_wid_array() {
        let (buf, len) = any_buf();
        let data = &buf[..len];
        let parsed = u32_wid_array_parser(data);
        if let Ok((rest, items)) = &parsed {
            let skipped = skip_wid_array(data);
            assert!(skipped.is_ok());
            if let Ok((rest2, none)) = &skipped {
                assert!(rest2.len() == rest.len() && rest2.as_ptr() == rest.as_ptr(), "skip and parse leave the same remainder");
                assert!(none.is_empty());
                assert!(len - rest.len() == 1 + 4 * items.len(), "an id array occupies 1 + 4n bytes");
                assert!(items.len() == buf[0] as usize);
            }
            kani::cover!(items.len() == 2, "two ids");
            kani::cover!(items.len() == 0 && len > 1, "empty array followed by data");
            std::mem::forget(skipped);
        }
        std::mem::forget(parsed);
    }
    //@END

    //@H c11_skip_u32_array
    #[kani::proof]
    #[kani::unwind(/*@UNW@*/6)]
    fn c11_skip_u32_array() {
        let (buf, len) = any_buf();
        let data = &buf[..len];
        let parsed = u32_array_parser(data);
        if let Ok((rest, items)) = &parsed {
            let skipped = skip_u32_array(data);
            assert!(skipped.is_ok());
            if let Ok((rest2, none)) = &skipped {
                assert!(rest2.len() == rest.len() && rest2.as_ptr() == rest.as_ptr(), "skip and parse leave the same remainder");
                assert!(none.is_empty());
                assert!(len - rest.len() == 1 + 4 * items.len());
            }
            kani::cover!(items.len() == 2, "two items");
            kani::cover!(items.len() == 1 && items[0] == 0xdead_beef, "content is read little endian from the right place");
            std::mem::forget(skipped);
        }
        std::mem::forget(parsed);
    }
    //@END

    /// the 2-byte form of the length prefix (what the writer emits from 127 units on; the reader accepts it for any length)
    //@H c11_skip_u16_string_long_prefix
    #[kani::proof]
    #[kani::unwind(/*@UNW_STR@*/8)]
    fn c11_skip_u16_string_long_prefix() {
        let (buf, len) = any_buf();
        kani::assume(len >= 2 && buf[0] == 0x80 && buf[1] <= /*@MAXUNITS@*/3);
        let data = &buf[..len];
        let parsed = utf16_string_parser(data);
        if let Ok((rest, s)) = &parsed {
            let skipped = skip_u16_string(data);
            assert!(skipped.is_ok());
            if let Ok((rest2, none)) = &skipped {
                assert!(rest2.len() == rest.len() && rest2.as_ptr() == rest.as_ptr(), "skip and parse leave the same remainder (2-byte length prefix)");
                assert!(none.is_empty());
                assert!(len - rest.len() == 2 + 2 * buf[1] as usize);
            }
            kani::cover!(s.len() == 3 && buf[1] == 1, "3-byte character behind a 2-byte prefix");
            kani::cover!(s.is_empty() && len > 2, "empty string behind a 2-byte prefix, followed by data");
            std::mem::forget(skipped);
        }
        std::mem::forget(parsed);
    }
    //@END

    //@H c11_skip_u16_string
    #[kani::proof]
    #[kani::unwind(/*@UNW_STR@*/8)]
    fn c11_skip_u16_string() {
        let (buf, len) = any_buf();
        // short strings: the length prefix itself is decided for all values in c05_len_prefix
        kani::assume(len == 0 || buf[0] <= /*@MAXUNITS@*/3);
        let data = &buf[..len];
        let parsed = utf16_string_parser(data);
        if let Ok((rest, s)) = &parsed {
            let skipped = skip_u16_string(data);
            assert!(skipped.is_ok());
            if let Ok((rest2, none)) = &skipped {
                assert!(rest2.len() == rest.len() && rest2.as_ptr() == rest.as_ptr(), "skip and parse leave the same remainder");
                assert!(none.is_empty());
                assert!(len - rest.len() == 1 + 2 * buf[0] as usize);
            }
            kani::cover!(s.len() == 4 && buf[0] == 2, "surrogate pair (4 UTF-8 bytes from 2 units)");
            kani::cover!(s.len() == 3 && buf[0] == 1, "3-byte character");
            kani::cover!(s.is_empty() && len > 1, "empty string followed by data");
            std::mem::forget(skipped);
        }
        std::mem::forget(parsed);
    }
    //@END
    /// Width contract of the (loop-free) skip functions for EVERY value of the length prefix: an integer array of L items
    /// occupies 1 + 4L bytes, a string of L UTF-16 units 1 + 2L (L < 128) or 2 + 2L bytes; the skip leaves exactly the rest.
    /// (The small-buffer harnesses above tie this width to what the parsing twin consumes; they cannot reach long fields.)
    fn width_buf(n: usize) -> (Vec<u8>, usize) {
        let mut buf = vec![0u8; n];
        buf[0] = kani::any();
        buf[1] = kani::any();
        let len: usize = kani::any();
        kani::assume(len >= 1 && len <= n);
        (buf, len)
    }

    //@H c11_skip_width_wid_array
    #[kani::proof]
    #[kani::unwind(4)]
    fn c11_skip_width_wid_array() {
        let (buf, len) = width_buf(1 + 4 * 255 + 3);
        let items = buf[0] as usize;
        kani::assume(len >= 1 + 4 * items); // complete record
        let data = &buf[..len];
        let r = skip_wid_array(data);
        assert!(r.is_ok(), "a complete array is skipped");
        if let Ok((rest, none)) = &r {
            assert!(none.is_empty());
            assert!(rest.len() == len - 1 - 4 * items && rest.as_ptr() == data[1 + 4 * items..].as_ptr(), "an id array of L items is skipped by exactly 1 + 4L bytes");
        }
        kani::cover!(items == 64 && len > 1 + 4 * 64, "64 items followed by data");
        kani::cover!(items == 127, "the longest array the builder writes");
        kani::cover!(items == 255, "the longest array the format can express");
        std::mem::forget(r);
        std::mem::forget(buf);
    }
    //@END

    //@H c11_skip_width_u32_array
    #[kani::proof]
    #[kani::unwind(4)]
    fn c11_skip_width_u32_array() {
        let (buf, len) = width_buf(1 + 4 * 255 + 3);
        let items = buf[0] as usize;
        kani::assume(len >= 1 + 4 * items);
        let data = &buf[..len];
        let r = skip_u32_array(data);
        assert!(r.is_ok(), "a complete array is skipped");
        if let Ok((rest, none)) = &r {
            assert!(none.is_empty());
            assert!(rest.len() == len - 1 - 4 * items && rest.as_ptr() == data[1 + 4 * items..].as_ptr(), "a u32 array of L items is skipped by exactly 1 + 4L bytes");
        }
        kani::cover!(items == 64 && len > 1 + 4 * 64, "64 items followed by data");
        kani::cover!(items == 255, "the longest array the format can express");
        std::mem::forget(r);
        std::mem::forget(buf);
    }
    //@END

    //@H c11_skip_width_u16_string
    #[kani::proof]
    #[kani::unwind(4)]
    fn c11_skip_width_u16_string() {
        let (buf, len) = width_buf(2 + 2 * 32767 + 3);
        let (prefix, units) = if buf[0] < 128 { (1usize, buf[0] as usize) } else { (2usize, (((buf[0] & 0x7f) as usize) << 8) | buf[1] as usize) };
        kani::assume(len >= prefix + 2 * units);
        let data = &buf[..len];
        let r = skip_u16_string(data);
        assert!(r.is_ok(), "a complete string is skipped");
        if let Ok((rest, none)) = &r {
            assert!(none.is_empty());
            assert!(rest.len() == len - prefix - 2 * units && rest.as_ptr() == data[prefix + 2 * units..].as_ptr(), "a string of L units is skipped by its prefix + 2L bytes");
        }
        kani::cover!(prefix == 1 && units == 127, "longest 1-byte-prefix string");
        kani::cover!(prefix == 2 && units == 127, "127 units behind a 2-byte prefix");
        kani::cover!(prefix == 2 && units == 128 && len > 2 + 256, "128 units followed by data");
        kani::cover!(prefix == 2 && units == 32767, "longest string the format can express");
        std::mem::forget(r);
        std::mem::forget(buf);
    }
    //@END
}
