// C11 — accessor level: requested fields read through WordInfo's public accessors agree with a full load.
#[cfg(kani)]
mod verif_c11 {
    use super::*;

    fn pick(nonempty: bool, s: &str) -> String {
        if nonempty { s.to_owned() } else { String::new() }
    }

    /// `full` = what loading all fields yields for a word (stored forms may be empty = "same as surface";
    /// dictionary_form is filled only for words that are not their own dictionary form).
    /// `sub` = what loading subset `n` yields: unrequested fields keep their defaults
    /// (this contract of the parser is what c11_parse_* decide).
    //@H c11_accessors_under_subset
    #[kani::proof]
    #[kani::unwind(4)]
    fn c11_accessors_under_subset() {
        let norm_stored: bool = kani::any();
        let read_stored: bool = kani::any();
        let other_dic_form: bool = kani::any();
        let full = WordInfoData {
            surface: "s".to_owned(),
            head_word_length: 3,
            pos_id: 7,
            normalized_form: pick(norm_stored, "n"),
            dictionary_form_word_id: if other_dic_form { 5 } else { -1 },
            dictionary_form: pick(other_dic_form, "d"),
            reading_form: pick(read_stored, "r"),
            ..Default::default()
        };
        let bits: u32 = kani::any();
        let req = InfoSubset::from_bits_truncate(bits);
        //@KF F-C11-1: req.contains(InfoSubset::DIC_FORM_WORD_ID) && !req.intersects(InfoSubset::SURFACE | InfoSubset::READING_FORM | InfoSubset::NORMALIZED_FORM)
        let n = req.normalize(); // what StatefulTokenizer::set_subset loads for the request
        let sub = WordInfoData {
            surface: pick(n.contains(InfoSubset::SURFACE), "s"),
            head_word_length: if n.contains(InfoSubset::HEAD_WORD_LENGTH) { 3 } else { 0 },
            pos_id: if n.contains(InfoSubset::POS_ID) { 7 } else { 0 },
            normalized_form: pick(norm_stored && n.contains(InfoSubset::NORMALIZED_FORM), "n"),
            dictionary_form_word_id: if n.contains(InfoSubset::DIC_FORM_WORD_ID) { full.dictionary_form_word_id } else { 0 },
            // get_word_info follows the dictionary-form id only if it was loaded
            dictionary_form: pick(other_dic_form && n.contains(InfoSubset::DIC_FORM_WORD_ID), "d"),
            reading_form: pick(read_stored && n.contains(InfoSubset::READING_FORM), "r"),
            ..Default::default()
        };
        let full: WordInfo = full.into();
        let sub: WordInfo = sub.into();
        if req.contains(InfoSubset::SURFACE) {
            assert!(sub.surface() == full.surface());
        }
        if req.contains(InfoSubset::POS_ID) {
            assert!(sub.pos_id() == full.pos_id());
        }
        if req.contains(InfoSubset::HEAD_WORD_LENGTH) {
            assert!(sub.head_word_length() == full.head_word_length());
        }
        if req.contains(InfoSubset::NORMALIZED_FORM) {
            assert!(sub.normalized_form() == full.normalized_form(), "normalized form equals the full-load value");
        }
        if req.contains(InfoSubset::READING_FORM) {
            assert!(sub.reading_form() == full.reading_form(), "reading form equals the full-load value");
        }
        if req.contains(InfoSubset::DIC_FORM_WORD_ID) {
            assert!(sub.dictionary_form_word_id() == full.dictionary_form_word_id());
            assert!(sub.dictionary_form() == full.dictionary_form(),
                "dictionary form equals the full-load value, also for words that are their own dictionary form");
        }
        kani::cover!(req == InfoSubset::NORMALIZED_FORM && !norm_stored, "normalized form elided, only it requested");
        kani::cover!(req.contains(InfoSubset::DIC_FORM_WORD_ID) && !other_dic_form, "word is its own dictionary form");
        kani::cover!(req.contains(InfoSubset::DIC_FORM_WORD_ID) && other_dic_form, "dictionary form is another word");
        kani::cover!(req == InfoSubset::READING_FORM && read_stored, "stored reading");
        std::mem::forget(full);
        std::mem::forget(sub);
    }
    //@END
}
