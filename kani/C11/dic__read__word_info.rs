// C11 — per-record agreement: parsing with a subset yields, for every requested field, what a full parse yields.
#[cfg(kani)]
mod verif_c11 {
    use super::*;

    fn stub_format(_a: std::fmt::Arguments<'_>) -> String {
        String::new()
    }

    fn eq_ids(a: &Vec<crate::dic::word_id::WordId>, b: &Vec<crate::dic::word_id::WordId>) -> bool {
        if a.len() != b.len() {
            return false;
        }
        let mut i = 0;
        while i < a.len() {
            if a[i] != b[i] {
                return false;
            }
            i += 1;
        }
        true
    }

    fn eq_bytes(a: &str, b: &str) -> bool {
        let (a, b) = (a.as_bytes(), b.as_bytes());
        if a.len() != b.len() {
            return false;
        }
        let mut i = 0;
        while i < a.len() {
            if a[i] != b[i] {
                return false;
            }
            i += 1;
        }
        true
    }

    /// Compare a subset parse with the full parse of the same record, field by field.
    fn agree(rec: &[u8], bits: u32) {
        let req = InfoSubset::from_bits_truncate(bits);
        let full = WordInfoParser::subset(InfoSubset::all()).parse(rec);
        let sub = WordInfoParser::subset(req).parse(rec);
        assert!(full.is_ok(), "the crafted record is well formed");
        assert!(sub.is_ok(), "a subset parse of a well-formed record succeeds");
        if let (Ok(f), Ok(s)) = (&full, &sub) {
            if req.contains(InfoSubset::SURFACE) {
                assert!(eq_bytes(&s.surface, &f.surface), "surface");
            }
            if req.contains(InfoSubset::HEAD_WORD_LENGTH) {
                assert!(s.head_word_length == f.head_word_length, "head word length");
            }
            if req.contains(InfoSubset::POS_ID) {
                assert!(s.pos_id == f.pos_id, "pos id");
            }
            if req.contains(InfoSubset::NORMALIZED_FORM) {
                assert!(eq_bytes(&s.normalized_form, &f.normalized_form), "normalized form");
            }
            if req.contains(InfoSubset::DIC_FORM_WORD_ID) {
                assert!(s.dictionary_form_word_id == f.dictionary_form_word_id, "dictionary form id");
            }
            if req.contains(InfoSubset::READING_FORM) {
                assert!(eq_bytes(&s.reading_form, &f.reading_form), "reading form");
            }
            if req.contains(InfoSubset::SPLIT_A) {
                assert!(eq_ids(&s.a_unit_split, &f.a_unit_split), "A split");
            }
            if req.contains(InfoSubset::SPLIT_B) {
                assert!(eq_ids(&s.b_unit_split, &f.b_unit_split), "B split");
            }
            if req.contains(InfoSubset::WORD_STRUCTURE) {
                assert!(eq_ids(&s.word_structure, &f.word_structure), "word structure");
            }
            if req.contains(InfoSubset::SYNONYM_GROUP_ID) {
                assert!(s.synonym_group_ids.len() == f.synonym_group_ids.len(), "synonym ids");
                if f.synonym_group_ids.len() == 1 {
                    assert!(s.synonym_group_ids[0] == f.synonym_group_ids[0]);
                }
            }
        }
        std::mem::forget(full);
        std::mem::forget(sub);
    }

/*@GENERATED@*/
}
