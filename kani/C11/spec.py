"""C11 — loading a subset of word fields never changes the fields that were requested (DESIGN §4 C11)."""
from runner import Harness

# record layouts: UTF-16 unit counts of (surface, normalized, reading) and item counts of (A, B, structure, synonyms)
LAYOUTS = {
    # name: (surface units, norm units, reading units, a, b, ws, syn, tiers)
    "numeric_only": (0, 0, 0, 0, 0, 0, 0, ("thorough",)),
    "strings_1_0_1_arrays_1_0_1_1": (1, 0, 1, 1, 0, 1, 1, ("thorough",)),
    "strings_2_1_0_arrays_0_2_0_0": (2, 1, 0, 0, 2, 0, 0, ("thorough",)),
}


FAMILY = [1 << i for i in range(10)] + [0x3ff ^ (1 << i) for i in range(10)] + [0x3ff, 0x0, 0x00c, 0x0c2, 0x221]


def gen_layout(name, su, nu, ru, a, b, ws, syn, concrete=None, hwl=None):
    """Rust for a harness whose record has the given concrete layout and symbolic contents."""
    L = []
    size = 0
    code = []

    def byte(expr):
        nonlocal size
        code.append("        rec[%d] = %s;" % (size, expr))
        size += 1

    def sym(n):
        nonlocal size
        for _ in range(n):
            code.append("        rec[%d] = kani::any();" % size)
            size += 1

    def bmp_units(n):
        # symbolic BMP code units that are not surrogates (a well-formed dictionary string)
        nonlocal size
        for _ in range(n):
            code.append("        { let u: u16 = kani::any(); kani::assume(u < 0xD800 || u > 0xDFFF); rec[%d] = u as u8; rec[%d] = (u >> 8) as u8; }" % (size, size + 1))
            size += 2

    byte(str(su)); bmp_units(su)          # surface
    if hwl is None:      # symbolic, 1-byte form
        code.append("        { let l: u8 = kani::any(); kani::assume(l < 127); rec[%d] = l; }" % size); size += 1
    elif hwl < 127:      # concrete: keeps every later offset concrete (a symbolic prefix width makes all later reads symbolic-offset)
        byte(str(hwl))
    else:                # concrete 2-byte form
        byte(str(0x80 | (hwl >> 8))); byte(str(hwl & 0xff))
    sym(2)                                  # pos id
    byte(str(nu)); bmp_units(nu)          # normalized form
    sym(4)                                  # dictionary form word id
    byte(str(ru)); bmp_units(ru)          # reading
    for cnt in (a, b, ws, syn):
        byte(str(cnt)); sym(4 * cnt)
    if concrete is not None:
        name = name + "_family"
    L.append("    //@H c11_parse_%s" % name)
    L.append("    #[kani::proof]")
    L.append("    #[kani::unwind(%d)]" % (max(su, nu, ru, a, b, ws, syn) * 3 + 6))
    L.append("    #[kani::stub(alloc::fmt::format, stub_format)]")
    L.append("    fn c11_parse_%s() {" % name)
    L.append("        let mut rec = [0u8; %d];" % (size + 2))
    L.extend(code)
    if concrete is None:
        L.append("        let bits: u32 = kani::any();")
        L.append("        agree(&rec, bits);")
        L.append('        kani::cover!(bits & 0x3ff == 0x004, "only the POS id requested (early exit after the third field)");')
        L.append('        kani::cover!(bits & 0x3ff == 0x200, "only the last field requested (everything before it skipped)");')
        L.append('        kani::cover!(bits & 0x3ff == 0x3ff, "all fields");')
        L.append('        kani::cover!(bits & 0x3ff == 0, "nothing requested");')
    else:
        for bits in concrete:
            L.append("        agree(&rec, 0x%03x);" % bits)
        L.append('        kani::cover!(rec[%d] == 0xff, "content bytes are free");' % (size - 1 if syn else 2 + 2 * su))
    L.append("    }")
    L.append("    //@END")
    return "\n".join(L), size


FIELDS = ["surface", "head_word_length", "pos_id", "normalized_form", "dictionary_form_word_id", "reading_form",
          "a_unit_split", "b_unit_split", "word_structure", "synonym_group_ids"]


def gen_single(lname, v, fi):
    """One concrete single-field request against a concrete layout with symbolic contents;
    oracle = the field decoded by hand from the record bytes at the offsets the layout dictates."""
    su, nu, ru, a, b, ws, syn = v[:7]
    hw = v[7] if len(v) > 7 else 5
    f = FIELDS[fi]
    hwl = None if (f == "head_word_length" and hw < 127) else hw
    text, size = gen_layout(lname, *v[:7], concrete=[], hwl=hwl)
    body = [l for l in text.split("\n") if l.startswith("        rec[") or l.startswith("        {")]
    # offsets
    off = {}
    pos = 0
    off["surface"] = pos; pos += 1 + 2 * su
    off["head_word_length"] = pos; pos += (1 if hw < 127 else 2)
    off["pos_id"] = pos; pos += 2
    off["normalized_form"] = pos; pos += 1 + 2 * nu
    off["dictionary_form_word_id"] = pos; pos += 4
    off["reading_form"] = pos; pos += 1 + 2 * ru
    for nm, cnt in (("a_unit_split", a), ("b_unit_split", b), ("word_structure", ws), ("synonym_group_ids", syn)):
        off[nm] = pos; pos += 1 + 4 * cnt
    assert pos == size
    f = FIELDS[fi]
    o = off[f]
    cnt = {"surface": su, "normalized_form": nu, "reading_form": ru, "a_unit_split": a, "b_unit_split": b, "word_structure": ws, "synonym_group_ids": syn}.get(f, 0)
    L = ["    //@H c11_field_%s_%s" % (lname, f), "    #[kani::proof]", "    #[kani::unwind(%d)]" % (max(su, nu, ru, a, b, ws, syn) * 3 + 6),
         "    #[kani::stub(alloc::fmt::format, stub_format)]", "    fn c11_field_%s_%s() {" % (lname, f),
         "        let mut rec = [0u8; %d];" % (size + 2)] + body
    L.append("        let r = WordInfoParser::subset(InfoSubset::from_bits_truncate(1 << %d)).parse(&rec);" % fi)
    L.append('        assert!(r.is_ok(), "a single-field parse of a well-formed record succeeds");')
    L.append("        if let Ok(wi) = &r {")
    if f in ("surface", "normalized_form", "reading_form"):
        L.append("            let mut want = String::new();")
        for k in range(cnt):
            L.append("            want.push(char::from_u32(u16::from_le_bytes([rec[%d], rec[%d]]) as u32).unwrap());" % (o + 1 + 2 * k, o + 2 + 2 * k))
        L.append('            assert!(eq_bytes(&wi.%s, &want), "%s is decoded from its own bytes");' % (f, f))
    elif f == "head_word_length":
        if hw < 127:
            L.append('            assert!(wi.head_word_length == rec[%d] as u16, "head word length");' % o)
        else:
            L.append('            assert!(wi.head_word_length == %d, "head word length (2-byte form)");' % hw)
    elif f == "pos_id":
        L.append('            assert!(wi.pos_id == u16::from_le_bytes([rec[%d], rec[%d]]), "pos id");' % (o, o + 1))
    elif f == "dictionary_form_word_id":
        L.append('            assert!(wi.dictionary_form_word_id == i32::from_le_bytes([rec[%d], rec[%d], rec[%d], rec[%d]]), "dictionary form id");' % (o, o + 1, o + 2, o + 3))
    else:
        L.append('            assert!(wi.%s.len() == %d, "item count");' % (f, cnt))
        for k in range(cnt):
            b0 = o + 1 + 4 * k
            raw = "u32::from_le_bytes([rec[%d], rec[%d], rec[%d], rec[%d]])" % (b0, b0 + 1, b0 + 2, b0 + 3)
            if f == "synonym_group_ids":
                L.append("            assert!(wi.%s[%d] == %s);" % (f, k, raw))
            else:
                L.append("            assert!(wi.%s[%d].as_raw() == %s);" % (f, k, raw))
    L.append("        }")
    L.append('        kani::cover!(rec[%d] == 0x55, "content bytes are free");' % (o + (1 if cnt or f in ("pos_id", "dictionary_form_word_id") else 0)))
    L.append("        std::mem::forget(r);")
    L.append("    }")
    L.append("    //@END")
    return "\n".join(L), size


FAMILY_LAYOUTS = {
    "mixed_1": (1, 1, 1, 1, 1, 1, 1, 5),
    "numeric_only": (0, 0, 0, 0, 0, 0, 0, 3),
    "long_key_2_0_1_arrays_2_0_1_2": (2, 0, 1, 2, 0, 1, 2, 300),
}
QUICK_LAYOUTS = ("mixed_1",)
CHUNK = 5


def family_chunks():
    return [FAMILY[i:i + CHUNK] for i in range(0, len(FAMILY), CHUNK)]


def gen_family(lname, v, k, chunk):
    text, size = gen_layout(lname, *v[:7], concrete=chunk, hwl=v[7])
    return text.replace("c11_parse_%s_family" % lname, "c11_parse_%s_family%d" % (lname, k)), size


SET_T = """    //@H c11_fixups_%s
    #[kani::proof]
    #[kani::unwind(20)]
    #[kani::stub(alloc::fmt::format, stub_format)]
    fn c11_fixups_%s() {
        subset_restamp(%d, %d);
    }
    //@END
"""
_LISTS = {1: "A", 2: "B", 4: "structure"}


def set_cases(ctx):
    """(name, dictionary, request bit mask, description): every non-empty combination of the three reference lists"""
    out = []
    for w in range(1, 8):
        names = [_LISTS[b] for b in (1, 2, 4) if w & b]
        d = 2 if w != 2 else 1
        if ctx.tier == "thorough" or w in (1, 4, 3, 5, 6, 2):
            out.append(("d%d_%s" % (d, "_".join(x.lower() for x in names)), d, w, "{%s}" % ", ".join(names)))
    return out


def params(ctx):
    q = ctx.tier == "quick"
    gens = [gen_layout(n, *v[:7])[0] for n, v in LAYOUTS.items() if ctx.tier in v[7] and not q]
    for lname, v in FAMILY_LAYOUTS.items():
        if q and lname not in QUICK_LAYOUTS:
            continue
        for fi in range(10):
            gens.append(gen_single(lname, v, fi)[0])
        if not q:
            for k, chunk in enumerate(family_chunks()):
                gens.append(gen_family(lname, v, k, chunk)[0])
    return {"GENERATED_SET": "\n".join(SET_T % (n, n, d, w) for (n, d, w, _) in set_cases(ctx)), "GENERATED": "\n\n".join(gens), "NBUF": 10 if q else 14, "UNW": 6 if q else 8, "UNW_STR": 8 if q else 10, "MAXUNITS": 3 if q else 4}


def harnesses(ctx):
    return set_harnesses(ctx) + harnesses_parse(ctx)


def set_harnesses(ctx):
    return [Harness("c11_fixups_" + n, "dic__lexicon_set",
                    ["LexiconSet::get_word_info_subset", "LexiconSet::update_dict_id", "Lexicon::get_word_info", "WordInfos::get_word_info", "WordInfoParser::parse", "u32_wid_array_parser", "skip_wid_array"],
                    "word of user dictionary %d (stack: system + 2 user dictionaries) whose A split, B split and word structure each hold one arbitrary raw reference; requested: %s" % (d, desc),
                    kernel="C11-d user-dictionary fix-ups reach every loaded reference list whatever else is (not) requested: requested lists equal their full-load value, the others are empty",
                    assumptions=["dictionary number and request concrete per harness", "arbitrary raw u32 references"], stubs=["alloc::fmt::format -> empty string"],
                    fs_array=True, timeout_s=1500, mem_gb=16, rust_mod="verif_c11_set")
            for (n, d, w, desc) in set_cases(ctx)]


def harnesses_parse(ctx):
    q = ctx.tier == "quick"
    nb = 10 if q else 14
    hs = [
        Harness("c11_normalize_closure", "dic__subset", ["InfoSubset::normalize"], "every 32-bit pattern truncated to the 10 field bits (and a second one for monotonicity)",
                kernel="C11-b subset closure: forms imply the surface they fall back to, splits imply the key length, idempotent, monotone", timeout_s=600, mem_gb=8),
        Harness("c11_accessors_under_subset", "dic__lexicon__word_infos",
                ["WordInfo::{surface,pos_id,head_word_length,normalized_form,reading_form,dictionary_form,dictionary_form_word_id}", "InfoSubset::normalize"],
                "every field request (1024) x stored/elided normalized and reading forms x own/other dictionary form; one-character strings",
                kernel="C11-c accessor level: requested fields read through the public accessors equal the full-load values",
                assumptions=["a subset load leaves unrequested fields at their defaults and requested ones as in a full load (decided by c11_parse_*/c11_skip_*)",
                             "the request is closed with InfoSubset::normalize as StatefulTokenizer::set_subset does"], timeout_s=900, mem_gb=10),
        Harness("c11_skip_wid_array", "dic__read__mod", ["skip_wid_array", "u32_wid_array_parser"], "every buffer of <= %d bytes" % nb,
                kernel="C11-a' skip width = parse width (word-id arrays)", timeout_s=900, mem_gb=10, replay_alt="c11_skip_small_wid"),
        Harness("c11_skip_u32_array", "dic__read__mod", ["skip_u32_array", "u32_array_parser"], "every buffer of <= %d bytes" % nb,
                kernel="C11-a' skip width = parse width (u32 arrays)", timeout_s=900, mem_gb=10, replay_alt="c11_skip_small_u32"),
        Harness("c11_skip_u16_string", "dic__read__mod", ["skip_u16_string", "utf16_string_parser", "utf16_string_data", "string_length_parser", "U16CodeUnits::next"],
                "every buffer of <= %d bytes whose length prefix is <= %d units" % (nb, 3 if q else 4),
                kernel="C11-a' skip width = parse width (UTF-16 strings)", timeout_s=1200, mem_gb=12, replay_alt="c11_skip_small_str"),
        Harness("c11_skip_u16_string_long_prefix", "dic__read__mod", ["skip_u16_string", "utf16_string_parser", "utf16_string_data", "string_length_parser"],
                "every buffer of <= %d bytes that starts with a 2-byte length prefix (0x80, n) with n <= %d units" % (nb, 3 if q else 4),
                kernel="C11-a' skip width = parse width behind the 2-byte form of the length prefix (strings of 127+ units use it)", timeout_s=1200, mem_gb=12, replay_alt="c11_skip_small_str"),
    ] + [
        Harness("c11_skip_small_" + k, "dic__read__mod", [f], "4-5 byte buffers (replay-only sibling)",
                kernel="replay-only: same assertion as c11_skip_* at a bound small enough for Kani's concrete-playback mode", tiers=("replay-only",), timeout_s=900, mem_gb=12)
        for k, f in (("str", "skip_u16_string"), ("wid", "skip_wid_array"), ("u32", "skip_u32_array"))
    ] + [
        Harness("c11_skip_width_" + k, "dic__read__mod", [f], bound,
                kernel="C11-a' width contract of the skip function for EVERY value of the length prefix (long arrays / strings are out of reach of the parse-vs-skip harnesses)",
                assumptions=["the record is complete (the buffer holds the whole field)"], timeout_s=900, mem_gb=12)
        for k, f, bound in (("wid_array", "skip_wid_array", "every item count 0..255, any tail"), ("u32_array", "skip_u32_array", "every item count 0..255, any tail"),
                            ("u16_string", "skip_u16_string", "both forms of the length prefix, every unit count 0..32767, any tail"))
    ]
    PARSE_FNS = ["WordInfoParser::subset", "WordInfoParser::parse", "parse_field!", "utf16_string_parser", "skip_u16_string", "string_length_parser",
                 "u32_wid_array_parser", "skip_wid_array", "u32_array_parser", "skip_u32_array"]
    for lname, v in FAMILY_LAYOUTS.items():
        if q and lname not in QUICK_LAYOUTS:
            continue
        for fi in range(10):
            _, size = gen_single(lname, v, fi)
            hs.append(Harness("c11_field_%s_%s" % (lname, FIELDS[fi]), "dic__read__word_info", PARSE_FNS,
                              "record layout %s (%d bytes), every content byte; the single-field request {%s}" % (lname, size, FIELDS[fi]),
                              kernel="C11-a requesting one field alone yields the value decoded by hand from the record (all earlier fields skipped, early exit afterwards)",
                              shape={"layout": lname, "field": FIELDS[fi]}, stubs=["alloc::fmt::format -> empty string"],
                              timeout_s=900 if q else 1800, mem_gb=20 if FIELDS[fi] in ("normalized_form", "reading_form") else 10, required=True))
    for lname, v in FAMILY_LAYOUTS.items():
        if q:
            break
        for k, chunk in enumerate(family_chunks()):
            _, size = gen_family(lname, v, k, chunk)
            hs.append(Harness("c11_parse_%s_family%d" % (lname, k), "dic__read__word_info", PARSE_FNS,
                              "record layout %s (%d bytes), every content byte (non-surrogate BMP units in strings) x the concrete field subsets %s" % (
                                  lname, size, ["0x%03x" % b for b in chunk]),
                              kernel="C11-a per-record agreement between a subset parse and the full parse (subset family: singletons, complements of singletons, all, none, 3 mixed)",
                              shape={"layout": lname, "subsets": chunk}, stubs=["alloc::fmt::format -> empty string"],
                              timeout_s=1200 if q else 2400, mem_gb=12 if q else 24))
    if not q:
        for name, v in LAYOUTS.items():
            _, size = gen_layout(name, *v[:7])
            hs.append(Harness("c11_parse_" + name, "dic__read__word_info", PARSE_FNS,
                              "record layout %s (%d bytes): every one of the 1024 field subsets x every content byte" % (name, size),
                              kernel="C11-a per-record agreement, symbolic subset (heavy; optional)",
                              shape={"surface_units": v[0], "norm_units": v[1], "reading_units": v[2], "arrays": list(v[3:7])},
                              stubs=["alloc::fmt::format -> empty string"], timeout_s=3000, mem_gb=40, required=False))
    return hs


OUTSIDE = ["token boundaries / word identities under subsets in a full analysis", "the user-dictionary POS fix-up (decided under C12)",
           "record layouts outside the enumerated ones (string/array lengths are concrete per harness; contents and the subset are symbolic)"]
EXPLANATION = "Skip widths vs parse widths for all short buffers; the subset closure for all 1024 requests; accessor fallbacks; per-record agreement on enumerated layouts."
MANIFEST = dict(
    design_ref="DESIGN.md §4 C11",
    technique="bounded model checking (Kani/CBMC/cadical): symbolic field subsets (all 1024) and symbolic record contents through WordInfoParser / the skip functions / InfoSubset::normalize / WordInfo accessors",
    text=("Solver-decided: (a') for every short buffer each skip function leaves exactly the remainder its parsing twin leaves, and for EVERY value of the length prefix (0..255 items, 0..32,767 units, both prefix forms) it skips exactly the field's width; (a) for enumerated record layouts, every one of the "
          "1024 subsets and every content byte, each requested field of a subset parse equals the full parse; (b) InfoSubset::normalize is idempotent, monotone, adds only "
          "SURFACE/HEAD_WORD_LENGTH and adds SURFACE whenever a form that falls back to it is requested; (c) through WordInfo's public accessors every requested field equals "
          "its full-load value, including the dictionary form of a word that is its own dictionary form; (d) for a word of a second user dictionary and every non-empty "
          "combination of {A split, B split, word structure} requested, each requested list is re-stamped exactly as under a full load and the others stay empty."),
    note=("Layouts (string/array lengths) are enumerated; the full-record harnesses are heavy and optional in the quick tier (reported as not decided when they hit their cap). "
          "Boundaries/word identities in a full analysis are outside. Trusted: Kani/CBMC/cadical."),
)
