// C16-b — dictionary look-back: a break candidate is vetoed exactly when a multi-character dictionary word
// found within the look-back window ends on or crosses it.
#[cfg(kani)]
mod verif_c16 {
    use super::*;
    use crate::dic::lexicon::Lexicon;

    fn is_prefix_at(key: &[u8], text: &[u8], off: usize) -> bool {
        if off + key.len() > text.len() {
            return false;
        }
        let mut i = 0;
        while i < key.len() {
            if text[off + i] != key[i] {
                return false;
            }
            i += 1;
        }
        true
    }

    fn check_text(units: &[u32], table: &'static [u8], keys: &[&[u8]], key_chars: &[usize], text: &str) {
        let set = LexiconSet::new(Lexicon::verif_from_index(units, table), 0);
        let ck = NonBreakChecker::new(&set);
        let tb = text.as_bytes();
        let eos: usize = kani::any();
        kani::assume(eos >= 1 && eos <= tb.len() && text.is_char_boundary(eos));
        let got = ck.has_non_break_word(text, eos);
        // reference (the statement): some dictionary word that starts within the 30-byte look-back window
        // crosses the candidate, or ends on it and has at least two characters
        let start = if eos > 30 { eos - 30 } else { 0 };
        let mut want = false;
        let mut one_char_terminator_matches = false;
        for i in 0..tb.len() {
            if i >= start && i < eos {
                for k in 0..keys.len() {
                    if is_prefix_at(keys[k], tb, i) {
                        let end = i + keys[k].len();
                        if end > eos || (end == eos && key_chars[k] >= 2) {
                            want = true;
                        }
                        if end == eos && key_chars[k] == 1 {
                            one_char_terminator_matches = true;
                        }
                    }
                }
            }
        }
        assert!(got == want, "break vetoed exactly when a multi-character dictionary word ends on or crosses the candidate");
        kani::cover!(got, "vetoed");
        kani::cover!(!got && one_char_terminator_matches, "a one-character entry ending on the candidate does not veto");
        std::mem::forget(ck);
        std::mem::forget(set);
    }

/*@GENERATED@*/
}
