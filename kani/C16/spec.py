"""C16 — sentence splitting partitions the text and breaks only after terminators (DESIGN §4 C16)."""
import importlib.util
import os
from runner import Harness

HERE = os.path.dirname(os.path.abspath(__file__))
ROW = "%s,0,0,100,%s,名詞,*,*,*,*,*,ヨミ,%s,*,A,*,*,*,*\n"
KEYS = ["。", "あ。", "。x", "b", "cあ。d", "？"]
TEXTS = {
    "plain": "xあ。y",                 # 'あ。' ends on the candidate after 。
    "inside_word": "cあ。dz",          # 'cあ。d' crosses the candidate after 。
    "starts_with_terminator": "b。xz",  # '。x' starts at the terminator and crosses the candidate
    "only_terminator": "zz。？z",      # only one-character entries end on the candidates
    "long_lookback": "cあ。d" + "い" * 10 + "。",  # the crossing word starts more than 30 bytes before the last candidate
}
THOROUGH_ONLY = ()


def rust_str(s):
    return '"' + "".join("\\u{%x}" % ord(c) for c in s) + '"'


_cache = {}


def compiled(ctx):
    if "c" in _cache:
        return _cache["c"]
    d = os.path.join(ctx.scratch, "c16")
    os.makedirs(d, exist_ok=True)
    m = os.path.join(d, "matrix.def")
    open(m, "w").write("1 1\n0 0 0\n")
    p = os.path.join(d, "nonbreak.csv")
    with open(p, "w", encoding="utf-8") as f:
        for k in KEYS:
            f.write(ROW % (k, k, k))
    out = ctx.run_gen(["c04", m, p])
    cols = out.splitlines()[0].split("\t")
    if cols[1] != "OK":
        raise RuntimeError("lexicon did not compile: " + cols[2])
    _cache["c"] = ([int(x) for x in cols[3].split(",")], [int(x) for x in cols[4].split(",")])
    return _cache["c"]


def params(ctx):
    units, table = compiled(ctx)
    L = ["    static UNITS: [u32; %d] = [%s];" % (len(units), ",".join(map(str, units))),
         "    static TABLE: [u8; %d] = [%s];" % (len(table), ",".join(map(str, table))),
         "    static KEYS: [&[u8]; %d] = [%s];" % (len(KEYS), ", ".join("&[%s]" % ",".join(str(b) for b in k.encode("utf-8")) for k in KEYS)),
         "    static KEY_CHARS: [usize; %d] = [%s];" % (len(KEYS), ", ".join(str(len(k)) for k in KEYS))]
    for name, text in TEXTS.items():
        L.append("""    //@H c16_nonbreak_%s
    #[kani::proof]
    #[kani::unwind(%d)]
    fn c16_nonbreak_%s() {
        check_text(&UNITS, &TABLE, &KEYS, &KEY_CHARS, %s);
    }
    //@END
""" % (name, len(text.encode("utf-8")) + 3, name, rust_str(text)))
    text = "aあb。éc" if ctx.tier == "quick" else "aあb。éc\nd😀"
    return {"GENERATED": "\n".join(L), "TEXT": rust_str(text), "UNW": len(text.encode("utf-8")) + 4, "NCHARS": len(text)}


def harnesses(ctx):
    text = "aあb。éc" if ctx.tier == "quick" else "aあb。éc\nd😀"
    hs = [
        Harness("c16_iterator_partitions", "sentence_splitter", ["SentenceIter::next", "SentenceSplitter::split", "SentenceSplitter::with_limit"],
                "concrete %d-byte mixed-width text %r; every sequence of boundary answers the detector's documentation allows; any window limit" % (len(text.encode("utf-8")), text),
                kernel="C16-a the iterator yields non-empty contiguous ranges on character boundaries covering the text, each equal to its slice, and terminates",
                stubs=["SentenceDetector::get_eos -> nondeterministic value within its documented contract (0 only for empty input; else a positive in-range character boundary or a negative value)"],
                timeout_s=900, mem_gb=12, outside=["which positions the regex-based detector actually returns"]),
        Harness("c16_iterator_empty_text", "sentence_splitter", ["SentenceIter::next"], "the empty text", kernel="C16-a empty text", timeout_s=300, mem_gb=8,
                stubs=["SentenceDetector::get_eos -> contract stub"]),
    ]
    for name, text in TEXTS.items():
        hs.append(Harness("c16_nonbreak_" + name, "sentence_detector",
                          ["NonBreakChecker::has_non_break_word", "LexiconSet::lookup", "Lexicon::lookup", "Trie::common_prefix_iterator", "TrieEntryIter::next", "WordIdTable::entries"],
                          "text %r against the lexicon %s (compiled by the current /repo DictBuilder); every candidate boundary on a character boundary" % (text, KEYS),
                          kernel="C16-b dictionary look-back: veto exactly for multi-character words ending on / crossing the candidate within the 30-byte window; a one-character terminator entry never vetoes",
                          shape={"text": text, "keys": KEYS}, fs_array=False, timeout_s=3000, mem_gb=30, tiers=("thorough",), required=False,
                          assumptions=["lexicon and text are from the enumerated family; the candidate offset is symbolic"]))
    return hs


OUTSIDE = ["everything fancy_regex decides: which positions are terminator matches, bracket levels, quoting particles, itemisation headers, the window limit",
           "so 'every sentence but the last ends with a terminator' and 'a free terminator does end a sentence' are NOT decided"]
EXPLANATION = "The iterator against a contract stub of the detector; the dictionary look-back against a naive scan of the keys."
MANIFEST = dict(
    design_ref="DESIGN.md §4 C16",
    technique="bounded model checking (Kani/CBMC/cadical): SentenceIter with get_eos replaced by a nondeterministic contract stub; NonBreakChecker::has_non_break_word over builder-produced lexicon tables with a symbolic boundary candidate",
    text=("Claimed for the partition/termination clause only. (a) For EVERY sequence of answers the boundary detector's documentation allows, the sentence iterator yields "
          "non-empty, contiguous ranges on character boundaries that cover the text, each equal to its slice, and stops within len steps. (b) For enumerated texts/lexicons and every candidate "
          "offset, has_non_break_word vetoes exactly when a multi-character dictionary word starting within the 30-byte window ends on or crosses the candidate; a one-character terminator "
          "entry never vetoes; no slicing panic at non-boundary window offsets. What the regex engine decides (terminators, brackets, particles, headers, window) is outside."),
    note="get_eos is stubbed by its documented contract; fancy_regex is not encodable. Trusted: Kani/CBMC/cadical, the contract stub.",
)
