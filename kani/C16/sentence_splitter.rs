// C16-a — the sentence iterator partitions the text for every answer the boundary detector may give.
#[cfg(kani)]
mod verif_c16 {
    use super::*;
    use crate::error::SudachiResult;

    /// Everything the documentation of get_eos allows: 0 only for empty input; otherwise a positive byte
    /// offset inside the input on a character boundary, or a negative value (no boundary found).
    fn any_eos(_d: &SentenceDetector, input: &str, _c: Option<&NonBreakChecker>) -> SudachiResult<isize> {
        if input.is_empty() {
            return Ok(0);
        }
        let r: isize = kani::any();
        kani::assume(r != 0 && r <= input.len() as isize && r >= -(input.len() as isize));
        if r > 0 {
            kani::assume(input.is_char_boundary(r as usize));
        }
        Ok(r)
    }

    //@H c16_iterator_partitions
    #[kani::proof]
    #[kani::unwind(/*@UNW@*/14)]
    #[kani::stub(SentenceDetector::get_eos, any_eos)]
    fn c16_iterator_partitions() {
        let data: &str = /*@TEXT@*/"a\u{3042}b\u{3002}\u{e9}c"; // mixed 1-3 byte characters
        let len = data.len();
        let limit: usize = kani::any();
        let splitter = SentenceSplitter::with_limit(limit);
        let mut it = splitter.split(data);
        let mut pos = 0usize;
        let mut sentences = 0usize;
        let mut done = false;
        for _ in 0..len + 1 {
            if !done {
                match it.next() {
                    None => done = true,
                    Some((range, slice)) => {
                        assert!(range.start == pos, "sentences are contiguous, the first starts at 0");
                        assert!(range.end > range.start, "sentences are non-empty");
                        assert!(range.end <= len && data.is_char_boundary(range.end), "ranges end on character boundaries inside the text");
                        assert!(slice.len() == range.end - range.start && slice.as_ptr() as usize == data.as_ptr() as usize + range.start,
                            "each sentence equals the text in its range");
                        pos = range.end;
                        sentences += 1;
                    }
                }
            }
        }
        assert!(done, "iteration terminates within len steps");
        assert!(pos == len, "the sentences cover the whole text");
        assert!(it.next().is_none());
        kani::cover!(sentences == 1, "no boundary: one sentence");
        kani::cover!(sentences >= 3, "three or more sentences");
        kani::cover!(sentences == /*@NCHARS@*/6, "every character its own sentence");
        std::mem::forget(splitter);
    }
    //@END

    //@H c16_iterator_empty_text
    #[kani::proof]
    #[kani::unwind(4)]
    #[kani::stub(SentenceDetector::get_eos, any_eos)]
    fn c16_iterator_empty_text() {
        let splitter = SentenceSplitter::new();
        let mut it = splitter.split("");
        assert!(it.next().is_none(), "an empty text has no sentences");
        std::mem::forget(splitter);
    }
    //@END
}
