// C09 — split_path: modes A and B refine mode C; tokens without declared splits are unchanged.
#[cfg(kani)]
mod verif_c09 {
    use super::*;
    use crate::analysis::inner::Node;
    use crate::analysis::node::{LatticeNode, PathCost};
    use crate::dic::grammar::Grammar;
    use crate::dic::lexicon::Lexicon;
    use crate::dic::lexicon::word_infos::WordInfoData;
    use crate::dic::lexicon_set::LexiconSet;
    use crate::dic::word_id::WordId;
    use crate::plugin::input_text::InputTextPlugin;
    use crate::plugin::oov::OovProviderPlugin;
    use crate::plugin::path_rewrite::PathRewritePlugin;

    fn stub_format(_a: std::fmt::Arguments<'_>) -> String {
        String::new()
    }

    struct LexOnly {
        set: LexiconSet<'static>,
    }
    impl DictionaryAccess for LexOnly {
        fn grammar(&self) -> &Grammar<'_> {
            unreachable!()
        }
        fn lexicon(&self) -> &LexiconSet<'_> {
            &self.set
        }
        fn input_text_plugins(&self) -> &[Box<dyn InputTextPlugin + Sync + Send>] {
            &[]
        }
        fn oov_provider_plugins(&self) -> &[Box<dyn OovProviderPlugin + Sync + Send>] {
            &[]
        }
        fn path_rewrite_plugins(&self) -> &[Box<dyn PathRewritePlugin + Sync + Send>] {
            &[]
        }
    }

    /// mode-C path over "abcdefgh": [0,b) without splits | [b,e) declaring a1 A units and b1 B units | [e,8) declaring a2 / b2 units
    /// (units are taken from [w0, w1]; w0 has the symbolic key length h0, w1 key length 1)
    fn split_path_case(mode: Mode, a1: usize, b1: usize, a2: usize, b2: usize) {
        let h0: u8 = kani::any();
        kani::assume(h0 < 127);
        let img: &'static [u8] = Box::leak(Box::new([
            8u8, 0, 0, 0, 22, 0, 0, 0,
            0, h0, 0, 0, 0, 0xff, 0xff, 0xff, 0xff, 0, 0, 0, 0, 0,
            0, 1, 0, 0, 0, 0xff, 0xff, 0xff, 0xff, 0, 0, 0, 0, 0,
        ]));
        let dict = LexOnly { set: LexiconSet::new(Lexicon::verif_with_infos(img, 2, false), 1) };
        let text = InputBuffer::verif_ascii("abcdefgh");
        let b: u16 = kani::any();
        let e: u16 = kani::any();
        kani::assume(0 < b && b < e && e < 8);
        kani::assume(h0 as u16 <= e - b && h0 as u16 <= 8 - e);
        let u = [WordId::new(0, 0), WordId::new(0, 1)];
        let n0 = ResultNode::new(Node::new(0, b, 1, 1, 0, WordId::new(0, 10)), 11, 0, b, WordInfoData::default().into());
        let n1 = ResultNode::new(
            Node::new(b, e, 2, 2, 0, WordId::new(0, 11)),
            22,
            b,
            e,
            WordInfoData { a_unit_split: u[..a1].to_vec(), b_unit_split: u[..b1].to_vec(), ..Default::default() }.into(),
        );
        let n2 = ResultNode::new(
            Node::new(e, 8, 3, 3, 0, WordId::new(0, 12)),
            33,
            e,
            8,
            WordInfoData { a_unit_split: u[..a2].to_vec(), b_unit_split: u[..b2].to_vec(), ..Default::default() }.into(),
        );
        let (k1, k2) = match mode {
            Mode::A => (a1, a2),
            Mode::B => (b1, b2),
            Mode::C => (0, 0),
        };
        let r = split_path(&dict, vec![n0, n1, n2], mode, InfoSubset::HEAD_WORD_LENGTH, &text);
        assert!(r.is_ok());
        if let Ok(p) = &r {
            // every mode-C boundary is kept and ranges stay a partition
            let mut pos = 0usize;
            let mut seen_b = false;
            let mut seen_e = false;
            for n in p.iter() {
                assert!(n.begin_bytes() == pos && n.begin() == pos, "sub-tokens and untouched tokens stay adjacent");
                pos = n.end_bytes();
                assert!(n.end() == pos);
                seen_b |= pos == b as usize;
                seen_e |= pos == e as usize;
            }
            assert!(pos == 8 && seen_b && seen_e, "boundaries of modes A and B include every boundary of mode C");
            // the token without declared splits is unchanged in every mode
            assert!(p[0].word_id() == WordId::new(0, 10) && p[0].end_bytes() == b as usize && p[0].total_cost() == 11 && p[0].left_id() == 1);
            let s1 = if k1 >= 2 { k1 } else { 1 };
            let s2 = if k2 >= 2 { k2 } else { 1 };
            assert!(p.len() == 1 + s1 + s2, "tokens declaring two or more units of the mode are replaced by them, all others kept");
            if k1 >= 2 {
                assert!(p[1].word_id() == u[0] && p[2].word_id() == u[1], "the declared units, in order");
                assert!(p[1].end_bytes() == b as usize + h0 as usize && p[2].end_bytes() == e as usize);
            } else {
                assert!(p[1].word_id() == WordId::new(0, 11) && p[1].total_cost() == 22 && p[1].left_id() == 2, "a token with fewer than two declared units is unchanged");
            }
            if k2 >= 2 {
                assert!(p[s1 + 1].word_id() == u[0] && p[s1 + 2].word_id() == u[1], "the declared units, in order");
                assert!(p[s1 + 1].end_bytes() == e as usize + h0 as usize && p[s1 + 2].end_bytes() == 8);
            } else {
                assert!(p[s1 + 1].word_id() == WordId::new(0, 12) && p[s1 + 1].total_cost() == 33 && p[s1 + 1].left_id() == 3, "a token with fewer than two declared units is unchanged");
            }
        }
        kani::cover!(b == 1 && e == 7, "wide middle token");
        kani::cover!(h0 == 0, "empty first unit");
        std::mem::forget(r);
        std::mem::forget(text);
        std::mem::forget(dict);
    }

/*@GENERATED@*/
}
