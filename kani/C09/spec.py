"""C09 — modes A and B refine mode C with exactly the dictionary's split units: kernels (DESIGN §4 C09)."""
import os
from runner import Harness

HERE = os.path.dirname(os.path.abspath(__file__))


def generate(ctx):
    t = open(os.path.join(HERE, "..", "C10", "analysis__stateful_tokenizer.rs")).read()
    t = t.replace("mod verif_c10", "mod verif_c09").replace("c10_mode_subset_history", "c09_mode_subset_history")
    return {"analysis__stateful_tokenizer": t}


# (name, mode, units of token 1 in A / B, units of token 2 in A / B)
CASES = [("a", "Mode::A", 2, 0, 1, 2), ("b_only", "Mode::B", 0, 2, 1, 1), ("b_mixed", "Mode::B", 2, 1, 1, 2), ("c", "Mode::C", 2, 2, 2, 2)]


def params(ctx):
    g = []
    for (n, m, a1, b1, a2, b2) in CASES:
        g.append("""    //@H c09_split_path_%s
    #[kani::proof]
    #[kani::unwind(12)]
    #[kani::stub(alloc::fmt::format, stub_format)]
    fn c09_split_path_%s() {
        split_path_case(%s, %d, %d, %d, %d);
    }
    //@END
""" % (n, n, m, a1, b1, a2, b2))
    return {"GENERATED": "\n".join(g)}


def harnesses(ctx):
    common = dict(stubs=["alloc::fmt::format -> empty string"], fs_array=True, timeout_s=1500, mem_gb=16)
    return [
        Harness("c09_units_mode_a", "analysis__node", ["ResultNode::split", "ResultNode::num_splits", "NodeSplitIterator::next", "LexiconSet::get_word_info_subset", "InputBuffer::ch_idx"],
                "parent [b, e) anywhere in an 8-byte ASCII text declaring A units [w0, w1] and B units [w3, w2, w1]; key lengths of the 4 unit words any values < 127",
                kernel="mode A yields exactly the declared A units, in order, partitioning the parent", assumptions=["all units but the last fit inside the parent (declared units concatenate to the word's key)", "ASCII text"], **common),
        Harness("c09_units_mode_b", "analysis__node", ["ResultNode::split", "ResultNode::num_splits", "NodeSplitIterator::next", "LexiconSet::get_word_info_subset", "InputBuffer::ch_idx"],
                "same parent, mode B (3 units)", kernel="mode B yields exactly the declared B units (not the A units), in order, partitioning the parent",
                assumptions=["all units but the last fit inside the parent", "ASCII text"], **common),
    ] + [
        Harness("c09_split_path_" + n, "analysis__stateless_tokenizer", ["split_path", "ResultNode::split", "NodeSplitIterator::next", "ResultNode::num_splits"],
                "mode-C path of 3 tokens over an 8-byte text with symbolic inner boundaries and symbolic key length of the first unit; %s; token 1 declares %d A / %d B units, token 2 %d A / %d B units" % (m, a1, b1, a2, b2),
                kernel="split_path keeps every mode-C boundary, leaves tokens with fewer than two declared units of the mode unchanged, replaces the others by their units; mode C is the identity",
                assumptions=["the first unit fits inside its parent", "ASCII text"], **common)
        for (n, m, a1, b1, a2, b2) in CASES
    ] + [
        Harness("c09_mode_subset_history", "analysis__stateful_tokenizer", ["StatefulTokenizer::set_mode", "StatefulTokenizer::set_subset", "InfoSubset::normalize"],
                "all modes x all 1024 requests x orders, after an arbitrary earlier history", kernel="whatever the history, the split field of the current mode AND the key length its offsets need are loaded "
                "(the C10 harness: the defect found there made A-split sub-tokens empty)", timeout_s=600, mem_gb=8),
    ]


OUTSIDE = ["which words of a real dictionary declare which units, and whether they concatenate to the key (builder + CSV)", "MorphemeList::split_into (on-demand split): it calls the same ResultNode::split with the list's own subset and buffer - "
           "by reading, not decided (MorphemeList needs a full dictionary object)", "multi-byte text (ch_idx table lookups: C08-d)", "user-dictionary re-stamping of units (C12)"]
EXPLANATION = "Kernel-level: the split iterator per mode, split_path's refinement of a mode-C path, and the loaded-field closure the splitting code relies on."
MANIFEST = dict(
    design_ref="DESIGN.md §4 C09",
    technique="bounded model checking (Kani/CBMC/cadical): ResultNode::split / NodeSplitIterator per mode and split_path over a 3-token path with symbolic boundaries, key lengths and mode; relational history step for the loaded fields",
    text=("Kernel-level claim, for all values of the symbolic boundaries, key lengths and modes: (a) splitting a token in mode A (B) yields exactly the A (B) units its dictionary entry declares - "
          "not the other mode's - in order, the first beginning at the parent's begin, intermediate ends following the units' key lengths, the last ending at the parent's end; "
          "(b) split_path keeps every boundary of the mode-C path, leaves tokens declaring fewer than two units unchanged (word id, range, cost, ids), replaces the others by their units, and is the identity in mode C; "
          "(c) after any history of mode/field-request changes the split field of the current mode and the key length are loaded. The on-demand split API and real dictionaries are outside."),
    note="Crafted 2-4 word lexicon images, ASCII text. Trusted: Kani/CBMC/cadical.",
)
