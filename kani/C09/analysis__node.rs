// C09 — the sub-tokens of a token are exactly the units the dictionary declares for the requested mode, in order, and their
// ranges partition the parent's range.
#[cfg(kani)]
mod verif_c09 {
    use super::*;
    use crate::analysis::Mode;
    use crate::dic::lexicon::Lexicon;

    fn stub_format(_a: std::fmt::Arguments<'_>) -> String {
        String::new()
    }

    /// system lexicon with 4 one-field words (only the key length differs): word i has key length h[i]
    fn lexicon_of(h: [u8; 4]) -> LexiconSet<'static> {
        let img: &'static [u8] = Box::leak(Box::new([
            16u8, 0, 0, 0, 30, 0, 0, 0, 44, 0, 0, 0, 58, 0, 0, 0, // offset table
            0, h[0], 0, 0, 0, 0xff, 0xff, 0xff, 0xff, 0, 0, 0, 0, 0, // surface "" | key length | pos | norm "" | dic form -1 | reading "" | 4 empty arrays
            0, h[1], 0, 0, 0, 0xff, 0xff, 0xff, 0xff, 0, 0, 0, 0, 0,
            0, h[2], 0, 0, 0, 0xff, 0xff, 0xff, 0xff, 0, 0, 0, 0, 0,
            0, h[3], 0, 0, 0, 0xff, 0xff, 0xff, 0xff, 0, 0, 0, 0, 0,
        ]));
        LexiconSet::new(Lexicon::verif_with_infos(img, 4, false), 1)
    }

    /// the parent declares A units [w0, w1] and B units [w3, w2, w1] (different lists, different lengths, shared member)
    fn split_in_mode(mode: Mode, units: usize) {
        let h: [u8; 4] = kani::any();
        kani::assume(h[0] < 127 && h[1] < 127 && h[2] < 127 && h[3] < 127);
        let set = lexicon_of(h);
        let text = InputBuffer::verif_ascii("abcdefgh");
        let b: u16 = kani::any();
        let e: u16 = kani::any();
        kani::assume(b < e && e <= 8);
        let a_units = [WordId::new(0, 0), WordId::new(0, 1)];
        let b_units = [WordId::new(0, 3), WordId::new(0, 2), WordId::new(0, 1)];
        let wi = WordInfoData { a_unit_split: a_units.to_vec(), b_unit_split: b_units.to_vec(), ..Default::default() };
        let parent = ResultNode::new(Node::new(b, e, 1, 1, 0, WordId::new(0, 5)), 0, b, e, wi.into());
        assert!(parent.num_splits(Mode::A) == 2 && parent.num_splits(Mode::B) == 3 && parent.num_splits(Mode::C) == 0);
        let want: &[WordId] = if units == 2 { &a_units } else { &b_units };
        // the declared units concatenate to the word's key: all but the last fit inside the parent
        let mut sum: u16 = 0;
        for k in 0..units - 1 {
            sum += h[want[k].word() as usize] as u16;
        }
        kani::assume(sum <= e - b);
        let mut it = parent.split(mode, &set, InfoSubset::HEAD_WORD_LENGTH, &text);
        let mut pos = b as usize;
        let mut got = 0usize;
        while let Some(n) = it.next() {
            assert!(got < units, "no more sub-tokens than declared units");
            assert!(n.word_id() == want[got], "sub-tokens are the declared units of the requested mode, in order");
            assert!(n.begin_bytes() == pos && n.begin() == pos, "each sub-token begins where the previous one ended (the first where the parent begins)");
            if got + 1 < units {
                assert!(n.end_bytes() == pos + h[want[got].word() as usize] as usize, "intermediate ends follow the key length of the unit");
            } else {
                assert!(n.end_bytes() == e as usize, "the last sub-token ends where the parent ends");
            }
            assert!(n.end() == n.end_bytes());
            pos = n.end_bytes();
            got += 1;
            std::mem::forget(n);
        }
        assert!(got == units, "every declared unit is reported");
        assert!(pos == e as usize);
        kani::cover!(sum < e - b, "units shorter than the parent: the last absorbs the rest");
        kani::cover!(sum == e - b, "last unit empty");
        kani::cover!(b > 0 && e < 8, "parent in the middle of the text");
        std::mem::forget(parent);
        std::mem::forget(text);
        std::mem::forget(set);
    }

    //@H c09_units_mode_a
    #[kani::proof]
    #[kani::unwind(12)]
    #[kani::stub(alloc::fmt::format, stub_format)]
    fn c09_units_mode_a() {
        split_in_mode(Mode::A, 2);
    }
    //@END

    //@H c09_units_mode_b
    #[kani::proof]
    #[kani::unwind(12)]
    #[kani::stub(alloc::fmt::format, stub_format)]
    fn c09_units_mode_b() {
        split_in_mode(Mode::B, 3);
    }
    //@END
}
