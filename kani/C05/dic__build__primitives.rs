// C05 — writer/reader agreement of the dictionary codecs (length prefixes, UTF-16 strings, integer arrays).
#[cfg(kani)]
mod verif_c05 {
    use super::*;
    use crate::dic::read::u16str::{string_length_parser, utf16_string_parser};
    use crate::dic::read::{u32_array_parser, u32_wid_array_parser};

    fn stub_format(_a: std::fmt::Arguments<'_>) -> String {
        String::new()
    }

    //@H c05_len_prefix
    #[kani::proof]
    #[kani::unwind(4)]
    #[kani::stub(alloc::fmt::format, stub_format)]
    fn c05_len_prefix() {
        let w = Utf16Writer::new();
        let len: usize = kani::any();
        let mut out: Vec<u8> = Vec::with_capacity(8);
        let r = w.write_len(&mut out, len);
        match &r {
            Ok(n) => {
                assert!(len <= 32767, "lengths above the format limit are rejected");
                assert!(*n == out.len() && (*n == 1 || *n == 2));
                assert!((*n == 1) == (len < 127), "1-byte form below 127, 2-byte form from 127");
                out.push(0xAA); // following data must not be consumed
                let p = string_length_parser(&out);
                assert!(p.is_ok());
                if let Ok((rest, got)) = &p {
                    assert!(*got as usize == len, "the reader decodes the length the writer encoded");
                    assert!(rest.len() == 1 && rest[0] == 0xAA, "and consumes exactly the prefix");
                }
                std::mem::forget(p);
            }
            Err(_) => assert!(len > 32767),
        }
        kani::cover!(len == 126, "largest 1-byte length");
        kani::cover!(len == 127, "smallest 2-byte length");
        kani::cover!(len == 128, "128");
        kani::cover!(len == 32767, "largest length");
        kani::cover!(len == 32768, "first rejected length");
        kani::cover!(len == 255 || len == 256, "byte carry");
        std::mem::forget(r);
        std::mem::forget(out);
        std::mem::forget(w);
    }
    //@END

    /// A string over a concrete UTF-8 width pattern: lead bytes fixed, payload bits symbolic (valid by construction).
    fn text_for(widths: &[usize]) -> String {
        let mut bytes: Vec<u8> = Vec::with_capacity(16);
        for k in 0..widths.len() {
            match widths[k] {
                1 => {
                    let b: u8 = kani::any();
                    kani::assume(b >= 1 && b < 0x80);
                    bytes.push(b);
                }
                2 => { bytes.push(0xC3); bytes.push(cont()); }
                3 => { bytes.push(0xE3); bytes.push(cont()); bytes.push(cont()); }
                _ => { bytes.push(0xF0); bytes.push(0x9F); bytes.push(cont()); bytes.push(cont()); }
            }
        }
        unsafe { String::from_utf8_unchecked(bytes) }
    }

    fn cont() -> u8 {
        let b: u8 = kani::any();
        kani::assume(b >= 0x80 && b <= 0xBF);
        b
    }

    /// Writer alone against a hand-written UTF-8 -> UTF-16 conversion (the composition writer o reader is
    /// too heavy for CBMC even for one character; both halves are decided against the same independent codec).
    fn string_write(widths: &[usize]) {
        let s = text_for(widths);
        let b = s.as_bytes();
        // independent decoding of the constructed bytes into UTF-16 units
        let mut units = [0u16; 8];
        let mut nu = 0usize;
        let mut p = 0usize;
        for k in 0..widths.len() {
            match widths[k] {
                1 => { units[nu] = b[p] as u16; nu += 1; p += 1; }
                2 => { units[nu] = ((b[p] as u16 & 0x1F) << 6) | (b[p + 1] as u16 & 0x3F); nu += 1; p += 2; }
                3 => { units[nu] = ((b[p] as u16 & 0x0F) << 12) | ((b[p + 1] as u16 & 0x3F) << 6) | (b[p + 2] as u16 & 0x3F); nu += 1; p += 3; }
                _ => {
                    let cp = ((b[p] as u32 & 0x07) << 18) | ((b[p + 1] as u32 & 0x3F) << 12) | ((b[p + 2] as u32 & 0x3F) << 6) | (b[p + 3] as u32 & 0x3F);
                    let v = cp - 0x10000;
                    units[nu] = 0xD800 + (v >> 10) as u16;
                    units[nu + 1] = 0xDC00 + (v & 0x3FF) as u16;
                    nu += 2;
                    p += 4;
                }
            }
        }
        let mut w = Utf16Writer::new();
        let mut out: Vec<u8> = Vec::with_capacity(32);
        let r = w.write(&mut out, &s);
        assert!(r.is_ok());
        if let Ok(n) = &r {
            assert!(*n == out.len());
        }
        assert!(out.len() == 1 + 2 * nu && out[0] as usize == nu, "1-byte prefix = number of UTF-16 units");
        for i in 0..8 {
            if i < nu {
                assert!(out[1 + 2 * i] == units[i] as u8 && out[2 + 2 * i] == (units[i] >> 8) as u8, "unit i little endian");
            }
        }
        std::mem::forget(r);
        std::mem::forget(out);
        std::mem::forget(w);
        std::mem::forget(s);
    }

    /// Reader alone: NU symbolic UTF-16 units (a surrogate pair where `pair_at` says so) against a hand-written UTF-16 -> UTF-8 conversion.
    fn string_read(nunits: usize, pair_at: usize) {
        let mut buf = [0u8; 12];
        buf[0] = nunits as u8;
        let mut want = [0u8; 16];
        let mut wl = 0usize;
        let mut i = 0usize;
        for _ in 0..4 {
            if i < nunits {
                if i == pair_at {
                    let hi: u16 = kani::any();
                    let lo: u16 = kani::any();
                    kani::assume(hi >= 0xD800 && hi <= 0xDBFF && lo >= 0xDC00 && lo <= 0xDFFF);
                    buf[1 + 2 * i] = hi as u8; buf[2 + 2 * i] = (hi >> 8) as u8;
                    buf[3 + 2 * i] = lo as u8; buf[4 + 2 * i] = (lo >> 8) as u8;
                    let cp = 0x10000 + (((hi as u32 - 0xD800) << 10) | (lo as u32 - 0xDC00));
                    want[wl] = 0xF0 | (cp >> 18) as u8; want[wl + 1] = 0x80 | ((cp >> 12) & 0x3F) as u8;
                    want[wl + 2] = 0x80 | ((cp >> 6) & 0x3F) as u8; want[wl + 3] = 0x80 | (cp & 0x3F) as u8;
                    wl += 4;
                    i += 2;
                } else {
                    let u: u16 = kani::any();
                    kani::assume(u < 0xD800 || u > 0xDFFF);
                    buf[1 + 2 * i] = u as u8; buf[2 + 2 * i] = (u >> 8) as u8;
                    if u < 0x80 {
                        want[wl] = u as u8; wl += 1;
                    } else if u < 0x800 {
                        want[wl] = 0xC0 | (u >> 6) as u8; want[wl + 1] = 0x80 | (u & 0x3F) as u8; wl += 2;
                    } else {
                        want[wl] = 0xE0 | (u >> 12) as u8; want[wl + 1] = 0x80 | ((u >> 6) & 0x3F) as u8; want[wl + 2] = 0x80 | (u & 0x3F) as u8; wl += 3;
                    }
                    i += 1;
                }
            }
        }
        buf[1 + 2 * nunits] = 0x55;
        let p = utf16_string_parser(&buf[..2 + 2 * nunits]);
        assert!(p.is_ok(), "well-formed UTF-16 is accepted");
        if let Ok((rest, s)) = &p {
            assert!(rest.len() == 1 && rest[0] == 0x55, "exactly the string is consumed");
            assert!(s.len() == wl, "decoded string has the expected UTF-8 length");
            let sb = s.as_bytes();
            for k in 0..16 {
                if k < wl {
                    assert!(sb[k] == want[k], "decoded string equals the hand conversion");
                }
            }
        }
        kani::cover!(wl == nunits, "all ASCII");
        kani::cover!(wl >= 3, "a 3-byte or astral character");
        std::mem::forget(p);
    }

/*@GENERATED@*/

    //@H c05_u32_array
    #[kani::proof]
    #[kani::unwind(/*@UNW_ARR@*/8)]
    #[kani::stub(alloc::fmt::format, stub_format)]
    fn c05_u32_array() {
        const N: usize = /*@NARR@*/3;
        let mut items: Vec<u32> = Vec::with_capacity(N);
        for _ in 0..N {
            items.push(kani::any());
        }
        let mut out: Vec<u8> = Vec::with_capacity(4 * N + 2);
        let r = write_u32_array(&mut out, &items);
        assert!(r.is_ok());
        if let Ok(n) = &r {
            assert!(*n == 1 + 4 * N && out.len() == *n);
        }
        out.push(0x77);
        let p = u32_array_parser(&out);
        assert!(p.is_ok());
        if let Ok((rest, back)) = &p {
            assert!(rest.len() == 1 && rest[0] == 0x77);
            assert!(back.len() == N);
            for i in 0..N {
                assert!(back[i] == items[i], "items come back in order");
            }
        }
        let q = u32_wid_array_parser(&out);
        assert!(q.is_ok());
        if let Ok((rest, back)) = &q {
            assert!(rest.len() == 1 && back.len() == N);
            for i in 0..N {
                assert!(back[i].as_raw() == items[i]);
            }
        }
        kani::cover!(items[0] == 0xffff_ffff && items[N - 1] == 0x8000_0001, "extreme values");
        std::mem::forget(p);
        std::mem::forget(q);
        std::mem::forget(r);
        std::mem::forget(out);
        std::mem::forget(items);
    }
    //@END

    //@H c05_u32_array_limits
    #[kani::proof]
    #[kani::unwind(4)]
    #[kani::stub(alloc::fmt::format, stub_format)]
    fn c05_u32_array_limits() {
        // 0 items, 128 items (rejected); 127 items is the 1-byte count at its largest: same code path as c05_u32_array
        let mut out: Vec<u8> = Vec::with_capacity(4);
        let empty: [u32; 0] = [];
        let r0 = write_u32_array(&mut out, &empty);
        assert!(r0.is_ok() && out.len() == 1 && out[0] == 0);
        let v: u32 = kani::any();
        let big = [v; 128];
        let mut out2: Vec<u8> = Vec::with_capacity(4);
        let r128 = write_u32_array(&mut out2, &big);
        assert!(r128.is_err() && out2.is_empty(), "more than 127 items are rejected before anything is written");
        kani::cover!(v == 0x0102_0304, "free content");
        std::mem::forget(r0);
        std::mem::forget(r128);
        std::mem::forget(out);
        std::mem::forget(out2);
    }
    //@END
}
