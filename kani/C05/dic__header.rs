// C05-g — dictionary header round trip.
#[cfg(kani)]
mod verif_c05 {
    use super::*;

    fn stub_format(_a: std::fmt::Arguments<'_>) -> String {
        String::new()
    }

    //@H c05_header
    #[kani::proof]
    #[kani::unwind(260)]
    #[kani::stub(alloc::fmt::format, stub_format)]
    fn c05_header() {
        let v: u8 = kani::any();
        kani::assume(v < 5);
        let version = match v {
            0 => HeaderVersion::SystemDict(SystemDictVersion::Version1),
            1 => HeaderVersion::SystemDict(SystemDictVersion::Version2),
            2 => HeaderVersion::UserDict(UserDictVersion::Version1),
            3 => HeaderVersion::UserDict(UserDictVersion::Version2),
            _ => HeaderVersion::UserDict(UserDictVersion::Version3),
        };
        let h = Header { version, create_time: kani::any(), description: String::from("ab") };
        let mut out: Vec<u8> = Vec::with_capacity(Header::STORAGE_SIZE);
        let r = h.write_to(&mut out);
        assert!(r.is_ok() && out.len() == Header::STORAGE_SIZE);
        let back = Header::parse(&out);
        assert!(back.is_ok());
        if let Ok(b) = &back {
            assert!(b.version == h.version, "version survives");
            assert!(b.create_time == h.create_time, "creation time survives");
            assert!(b.description.len() == 2 && b.description.as_bytes()[0] == b'a' && b.description.as_bytes()[1] == b'b');
            assert!(b.has_grammar() == h.has_grammar() && b.has_synonym_group_ids() == h.has_synonym_group_ids());
        }
        kani::cover!(v == 4 && h.create_time == u64::MAX, "newest user version, extreme time");
        std::mem::forget(back);
        std::mem::forget(r);
        std::mem::forget(out);
        std::mem::forget(h);
    }
    //@END
}
