// C05-f — reinterpreting dictionary bytes: the same element values whether the start is aligned or not.
#[cfg(kani)]
mod verif_c05 {
    use super::*;

    //@H c05_cow_i16
    #[kani::proof]
    #[kani::unwind(8)]
    fn c05_cow_i16() {
        let buf: [u8; 12] = kani::any();
        let off: usize = kani::any();
        kani::assume(off <= 3);
        const N: usize = 4;
        let mut arr: CowArray<i16> = CowArray::from_bytes(&buf, off, N);
        assert!(arr.len() == N);
        for i in 0..N {
            assert!(arr[i] == i16::from_le_bytes([buf[off + 2 * i], buf[off + 2 * i + 1]]), "element i is read little endian from offset + 2i");
        }
        // copy-on-write update
        let k: usize = kani::any();
        kani::assume(k < N);
        let v: i16 = kani::any();
        arr.set(k, v);
        for i in 0..N {
            if i == k {
                assert!(arr[i] == v);
            } else {
                assert!(arr[i] == i16::from_le_bytes([buf[off + 2 * i], buf[off + 2 * i + 1]]), "other elements untouched");
            }
        }
        kani::cover!(off == 1, "odd offset");
        kani::cover!(off == 2, "even offset");
        std::mem::forget(arr);
    }
    //@END

    //@H c05_cow_u32
    #[kani::proof]
    #[kani::unwind(8)]
    fn c05_cow_u32() {
        let buf: [u8; 16] = kani::any();
        let off: usize = kani::any();
        kani::assume(off <= 4);
        const N: usize = 3;
        let arr: CowArray<u32> = CowArray::from_bytes(&buf, off, N);
        assert!(arr.len() == N);
        for i in 0..N {
            let b = off + 4 * i;
            assert!(arr[i] == u32::from_le_bytes([buf[b], buf[b + 1], buf[b + 2], buf[b + 3]]), "element i is read little endian from offset + 4i");
        }
        kani::cover!(off == 3, "unaligned");
        kani::cover!(off == 4, "aligned relative to the buffer");
        std::mem::forget(arr);
    }
    //@END
}
