"""C05 — compile-then-load round trip: codec kernels (DESIGN §4 C05)."""
import os
from runner import Harness

HERE = os.path.dirname(os.path.abspath(__file__))
# UTF-8 width patterns for the string round trip (lead bytes concrete, payload symbolic)
PATTERNS = {
    "w1": ([1], ("quick", "thorough")),
    "w2": ([2], ("quick", "thorough")),
    "w3": ([3], ("quick", "thorough")),
    "w4": ([4], ("quick", "thorough")),
    "empty": ([], ("quick", "thorough")),
    "w1_w3": ([1, 3], ("thorough",)),
}


READS = {"one_bmp": ((1, 9), ("quick", "thorough")), "pair": ((2, 0), ("thorough",)), "two_bmp": ((2, 9), ("thorough",))}


def reads(ctx):
    return {k: v[0] for k, v in READS.items() if ctx.tier in v[1]}


def pats(ctx):
    return {k: v[0] for k, v in PATTERNS.items() if ctx.tier in v[1]}


def params(ctx):
    L = []
    for name, w in pats(ctx).items():
        L.append("""    //@H c05_string_write_%s
    #[kani::proof]
    #[kani::unwind(%d)]
    #[kani::stub(alloc::fmt::format, stub_format)]
    fn c05_string_write_%s() {
        string_write(&[%s]);
    }
    //@END
""" % (name, 12, name, ", ".join(map(str, w))))
    for name, (nu, pair) in reads(ctx).items():
        L.append("""    //@H c05_string_read_%s
    #[kani::proof]
    #[kani::unwind(20)]
    #[kani::stub(alloc::fmt::format, stub_format)]
    fn c05_string_read_%s() {
        string_read(%d, %d);
    }
    //@END
""" % (name, name, nu, pair))
    n = 3 if ctx.tier == "quick" else 5
    return {"GENERATED": "\n".join(L), "NARR": n, "UNW_ARR": n + 4}


def generate(ctx):
    # matrix orientation: the C06 writer/reader harness, under this property's module name
    t = open(os.path.join(HERE, "..", "C06", "dic__build__conn.rs")).read()
    import re
    t = re.sub(r"^[ \t]*//@H c06_write_elem_\w+[ \t]*\n.*?^[ \t]*//@END[ \t]*\n", "", t, flags=re.M | re.S)
    t = t.replace("mod verif_c06", "mod verif_c05").replace("c06_write_then_read_3x2", "c05_matrix_orientation_3x2")
    return {"dic__build__conn": t}


def harnesses(ctx):
    q = ctx.tier == "quick"
    hs = [
        Harness("c05_len_prefix", "dic__build__primitives", ["Utf16Writer::write_len", "string_length_parser"], "every usize length",
                kernel="C05-a length prefix: 1 byte below 127, else 2 bytes with the high bit; the reader decodes what the writer encoded and consumes exactly the prefix; > 32767 rejected",
                stubs=["alloc::fmt::format -> empty string"], timeout_s=600, mem_gb=8),
    ]
    for name, w in pats(ctx).items():
        hs.append(Harness("c05_string_write_" + name, "dic__build__primitives", ["Utf16Writer::write", "Utf16Writer::write_len"],
                          "strings with the UTF-8 width pattern %s: lead bytes concrete, all payload bits symbolic" % w,
                          kernel="C05-b string writer = hand-written UTF-8 -> UTF-16LE conversion (surrogate pairs for astral characters), 1-byte prefix = unit count",
                          shape={"utf8_widths": w}, stubs=["alloc::fmt::format -> empty string"], timeout_s=1200 if q else 2400, mem_gb=12 if q else 24,
                          outside=["strings of 127+ units (the prefix boundary itself is c05_len_prefix)"]))
    for name, (nu, pair) in reads(ctx).items():
        hs.append(Harness("c05_string_read_" + name, "dic__build__primitives", ["utf16_string_parser", "utf16_string_data", "string_length_parser", "U16CodeUnits::next"],
                          "%d symbolic UTF-16 units%s" % (nu, (" with a surrogate pair at unit %d" % pair) if pair < nu else " (non-surrogate)"),
                          kernel="C05-b string reader = hand-written UTF-16LE -> UTF-8 conversion, exact consumption (with the writer harnesses: reader o writer = identity)",
                          shape={"units": nu, "pair_at": pair if pair < nu else None}, stubs=["alloc::fmt::format -> empty string"], timeout_s=1200 if q else 2400, mem_gb=12 if q else 24))
    n = 3 if q else 5
    hs += [
        Harness("c05_u32_array", "dic__build__primitives", ["write_u32_array", "u32_array_parser", "u32_wid_array_parser"], "%d arbitrary u32 items" % n,
                kernel="C05-c integer arrays (split units, word structure, synonym ids) round trip", stubs=["alloc::fmt::format -> empty string"], timeout_s=900, mem_gb=10),
        Harness("c05_u32_array_limits", "dic__build__primitives", ["write_u32_array"], "0 and 128 items of one arbitrary value",
                kernel="C05-c array length limits: 128 items rejected before anything is written, empty array = one zero byte", stubs=["alloc::fmt::format -> empty string"], timeout_s=900, mem_gb=10),
        Harness("c05_word_params", "dic__lexicon__word_params", ["RawLexiconEntry::write_params", "WordParams::new", "WordParams::get_params", "WordParams::get_cost", "CowArray::from_bytes"],
                "3 entries with arbitrary i16 (left, right, cost), any queried entry",
                kernel="C05-d connection ids and cost of every entry survive compile -> load", timeout_s=900, mem_gb=12),
        Harness("c05_matrix_orientation_3x2", "dic__build__conn", ["ConnBuffer::write_elem", "ConnectionMatrix::cost", "ConnectionMatrix::index"],
                "every in-range (left, right) and non-zero cost on a 3x2 matrix",
                kernel="C05-e the connection cost of every id pair equals the matrix text: writer and reader agree on the orientation",
                stubs=["alloc::fmt::format -> empty string"], timeout_s=600, mem_gb=8),
        Harness("c05_cow_i16", "util__cow_array", ["CowArray::<i16>::from_bytes", "CowArray::set", "copy_of_bytes", "is_aligned"],
                "12 arbitrary bytes, start offset 0..3 (aligned and unaligned), 4 elements, one arbitrary update",
                kernel="C05-f the loaded values do not depend on the memory alignment of the dictionary bytes", timeout_s=900, mem_gb=12),
        Harness("c05_cow_u32", "util__cow_array", ["CowArray::<u32>::from_bytes", "copy_of_bytes", "is_aligned"], "16 arbitrary bytes, start offset 0..4, 3 elements",
                kernel="C05-f alignment independence (u32: trie units)", timeout_s=900, mem_gb=12),
        Harness("c05_header", "dic__header", ["Header::write_to", "Header::parse", "HeaderVersion::to_u64/from_u64", "Header::has_grammar/has_synonym_group_ids"],
                "all 5 header versions, any creation time, description \"ab\"", kernel="C05-g header round trip", stubs=["alloc::fmt::format -> empty string"],
                timeout_s=3000, mem_gb=30, required=False, tiers=("thorough",)),
    ]
    return hs


OUTSIDE = ["whole entries (form elision at parse time, split resolution, POS table) and the CSV reader: LexiconReader::parse_record on one csv::StringRecord with four symbolic 2-letter fields did not leave symbolic execution in 1500 s [measured] even with the regex-based field parsers stubbed", "matrix *text* parsing", "byte-identical determinism of compile (hash-order questions are not a solver matter)",
           "strings longer than the enumerated width patterns"]
EXPLANATION = "Writer composed with reader for each primitive codec of the binary format, symbolic contents."
MANIFEST = dict(
    design_ref="DESIGN.md §4 C05",
    technique="bounded model checking (Kani/CBMC/cadical): writer o reader = identity for each primitive codec with symbolic contents (lengths, UTF-16 strings, integer arrays, word parameters, matrix cells, aligned/unaligned reinterpretation, header)",
    text=("Codec-kernel claim: for all values of the symbolic contents the reader returns exactly what the writer was given and consumes exactly what was written - the 1/2-byte length prefix for EVERY "
          "length (126/127/128, 32767/32768), UTF-16 strings over enumerated UTF-8 width patterns incl. surrogate pairs, integer arrays (0/127/128 items), per-entry connection ids and cost, "
          "matrix cells at (left,right), element values independent of buffer alignment, header fields. Whole-entry round trips, split resolution and byte-identical determinism are outside."),
    note="String shapes are enumerated width patterns (payload bits symbolic). Trusted: Kani/CBMC/cadical.",
)
