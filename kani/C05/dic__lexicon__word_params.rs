// C05-d — word parameters: what the compiler writes per entry is what the loader returns.
#[cfg(kani)]
mod verif_c05 {
    use super::*;
    use crate::analysis::Mode;
    use crate::dic::build::lexicon::RawLexiconEntry;
    use crate::dic::word_id::WordId;

    //@H c05_word_params
    #[kani::proof]
    #[kani::unwind(12)]
    fn c05_word_params() {
        const N: usize = 3;
        let mut bytes: Vec<u8> = Vec::with_capacity(4 + 6 * N);
        // the lexicon section stores the count and then N x (left, right, cost)
        bytes.extend_from_slice(&(N as u32).to_le_bytes());
        let mut want = [(0i16, 0i16, 0i16); N];
        for i in 0..N {
            let e = RawLexiconEntry {
                left_id: kani::any(),
                right_id: kani::any(),
                cost: kani::any(),
                surface: String::new(),
                headword: None,
                dic_form: WordId::INVALID,
                norm_form: None,
                pos: 0,
                splits_a: Vec::new(),
                splits_b: Vec::new(),
                reading: None,
                splitting: Mode::C,
                word_structure: Vec::new(),
                synonym_groups: Vec::new(),
            };
            want[i] = (e.left_id, e.right_id, e.cost);
            let r = e.write_params(&mut bytes);
            assert!(r.is_ok());
            std::mem::forget(r);
            std::mem::forget(e);
        }
        assert!(bytes.len() == 4 + 6 * N);
        let wp = WordParams::new(&bytes, N as u32, 4);
        assert!(wp.size() == N as u32 && wp.storage_size() == 4 + 6 * N);
        let k: u32 = kani::any();
        kani::assume((k as usize) < N);
        let got = wp.get_params(k);
        assert!(got == want[k as usize], "(left id, right id, cost) of entry k");
        assert!(wp.get_cost(k) == want[k as usize].2);
        kani::cover!(k == 2 && got.2 == i16::MIN, "user-dictionary cost marker on the last entry");
        kani::cover!(got.0 == -1, "non-indexed entry");
        std::mem::forget(wp);
        std::mem::forget(bytes);
    }
    //@END
}
