#[cfg(kani)]
impl Lexicon<'static> {
    /// harness helper: an empty lexicon (root-only double array, no words)
    pub(crate) fn verif_empty() -> Self {
        Lexicon {
            trie: Trie::new_owned(vec![0u32; 1]),
            word_id_table: WordIdTable::new(&[], 0, 0),
            word_params: WordParams::new(&[], 0, 0),
            word_infos: WordInfos::new(&[], 0, 0, false),
            lex_id: u8::MAX,
        }
    }

    /// harness helper: a lexicon whose word infos are read from `bytes` (offset table at 0)
    pub(crate) fn verif_with_infos(bytes: &'static [u8], words: u32, synonyms: bool) -> Self {
        Lexicon {
            trie: Trie::new_owned(vec![0u32; 1]),
            word_id_table: WordIdTable::new(&[], 0, 0),
            word_params: WordParams::new(&[], 0, 0),
            word_infos: WordInfos::new(bytes, 0, words, synonyms),
            lex_id: u8::MAX,
        }
    }

    pub(crate) fn verif_lex_id(&self) -> u8 {
        self.lex_id
    }
}

#[cfg(kani)]
impl Lexicon<'static> {
    /// harness helper: a lexicon over a double array and word-id table produced by the builder
    pub(crate) fn verif_from_index(units: &[u32], table: &'static [u8]) -> Self {
        Lexicon {
            trie: Trie::new_owned(units.to_vec()),
            word_id_table: WordIdTable::new(table, table.len() as u32, 0),
            word_params: WordParams::new(&[], 0, 0),
            word_infos: WordInfos::new(&[], 0, 0, false),
            lex_id: u8::MAX,
        }
    }
}

#[cfg(kani)]
impl Lexicon<'static> {
    /// harness helper: a lexicon without keys whose double array is safe to walk with any text free of NUL bytes
    /// (256 unused units: the root's offset is 0, no unit carries a matching label)
    pub(crate) fn verif_no_keys() -> Self {
        Lexicon {
            trie: Trie::new_owned(vec![0u32; 256]),
            word_id_table: WordIdTable::new(&[], 0, 0),
            word_params: WordParams::new(&[], 0, 0),
            word_infos: WordInfos::new(&[], 0, 0, false),
            lex_id: u8::MAX,
        }
    }
}
