#[cfg(kani)]
impl ConnectionMatrix<'static> {
    /// harness helper: a matrix over already decoded cells (the byte-level path is C05)
    pub(crate) fn verif_from_vec(data: Vec<i16>, num_left: usize, num_right: usize) -> Self {
        ConnectionMatrix {
            data: CowArray::from_owned(data),
            num_left,
            num_right,
        }
    }
}
