#[cfg(kani)]
impl Grammar<'static> {
    /// harness helper: a grammar around an already built matrix (no POS, default character classes)
    pub(crate) fn verif_with_matrix(conn: ConnectionMatrix<'static>) -> Self {
        Grammar {
            _bytes: &[],
            pos_list: Vec::new(),
            storage_size: 0,
            connection: conn,
            character_category: CharacterCategory::default(),
        }
    }
}
