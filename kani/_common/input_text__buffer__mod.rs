#[cfg(kani)]
impl InputBuffer {
    /// harness helper: a built (read-only) buffer over an ASCII text with identity tables
    pub(crate) fn verif_ascii(text: &str) -> InputBuffer {
        let mut b = InputBuffer::default();
        b.original = String::from(text);
        b.modified = String::from(text);
        let n = text.len();
        for i in 0..n + 1 {
            b.m2o.push(i);
            b.mod_c2b.push(i);
            b.mod_b2c.push(i);
        }
        b.state = BufferState::RO;
        b
    }
}

#[cfg(kani)]
impl InputBuffer {
    /// harness helper: a built (read-only) buffer over a concrete text (any widths), identity offset map, tables filled by a
    /// concrete loop over the characters
    pub(crate) fn verif_text(text: &str) -> InputBuffer {
        let mut b = InputBuffer::default();
        b.original = String::from(text);
        b.modified = String::from(text);
        for i in 0..text.len() + 1 {
            b.m2o.push(i);
        }
        let mut c = 0usize;
        for (off, ch) in text.char_indices() {
            b.mod_chars.push(ch);
            b.mod_c2b.push(off);
            for _ in 0..ch.len_utf8() {
                b.mod_b2c.push(c);
            }
            c += 1;
        }
        b.mod_c2b.push(text.len());
        b.mod_b2c.push(c);
        b.state = BufferState::RO;
        b
    }
}

#[cfg(kani)]
impl InputBuffer {
    /// harness helper: `verif_ascii` plus the per-byte word-start flags
    pub(crate) fn verif_ascii_bow(text: &str, bow: &[bool]) -> InputBuffer {
        let mut b = InputBuffer::verif_ascii(text);
        for i in 0..text.len() {
            b.mod_bow.push(bow[i]);
            b.mod_chars.push(text.as_bytes()[i] as char);
        }
        b
    }
}
