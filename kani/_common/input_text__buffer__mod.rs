#[cfg(kani)]
impl InputBuffer {
    /// harness helper: a built (read-only) buffer over an ASCII text with identity tables
    pub(crate) fn verif_ascii(text: &str) -> InputBuffer {
        let mut b = InputBuffer::default();
        b.original = String::from(text);
        b.modified = String::from(text);
        let n = text.len();
        for i in 0..n + 1 {
            b.m2o.push(i);
            b.mod_c2b.push(i);
            b.mod_b2c.push(i);
        }
        b.state = BufferState::RO;
        b
    }
}
