#[cfg(kani)]
impl CharacterCategory {
    /// harness helper: a compiled table written directly
    pub(crate) fn verif_from_tables(boundaries: Vec<u32>, categories: Vec<CategoryType>) -> Self {
        CharacterCategory { boundaries, categories }
    }
}
