//! Native table generator: runs the repository's own loader/builder code on concrete
//! inputs and prints what it produced, so that Kani harnesses can be given the tables
//! the *current* /repo code computes (DESIGN §3.1 step 2).
use std::io::BufReader;
use sudachi::dic::character_category::CharacterCategory;

fn c17(paths: &[String]) {
    // one line per file:  <path>\t<begin>:<end>:<bits>,...   or  <path>\tERR
    for p in paths {
        let f = std::fs::File::open(p).expect("open");
        match CharacterCategory::from_reader(BufReader::new(f)) {
            Ok(cc) => {
                let parts: Vec<String> = cc
                    .iter()
                    .map(|(r, c)| format!("{}:{}:{}", r.start as u32, r.end as u32, c.bits()))
                    .collect();
                println!("{}\t{}", p, parts.join(","));
            }
            Err(_) => println!("{}\tERR", p),
        }
    }
}

fn main() {
    let args: Vec<String> = std::env::args().skip(1).collect();
    match args.get(0).map(|s| s.as_str()) {
        Some("c17") => c17(&args[1..]),
        _ => {
            eprintln!("usage: verif-gen c17 <char.def>...");
            std::process::exit(2);
        }
    }
}
