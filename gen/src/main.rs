//! Native table generator: runs the repository's own loader/builder code on concrete
//! inputs and prints what it produced, so that Kani harnesses can be given the tables
//! the *current* /repo code computes (DESIGN §3.1 step 2).
use std::io::BufReader;
use sudachi::dic::character_category::CharacterCategory;

fn c17(paths: &[String]) {
    // one line per file:  <path>\t<begin>:<end>:<bits>,...   or  <path>\tERR
    for p in paths {
        let f = std::fs::File::open(p).expect("open");
        match CharacterCategory::from_reader(BufReader::new(f)) {
            Ok(cc) => {
                let parts: Vec<String> = cc
                    .iter()
                    .map(|(r, c)| format!("{}:{}:{}", r.start as u32, r.end as u32, c.bits()))
                    .collect();
                println!("{}\t{}", p, parts.join(","));
            }
            Err(_) => println!("{}\tERR", p),
        }
    }
}

/// Compile a system dictionary with the repository's DictBuilder and return its bytes.
fn compile_system(matrix: &str, csv: &str) -> Result<Vec<u8>, String> {
    use sudachi::dic::build::DictBuilder;
    let mut b = DictBuilder::new_system();
    b.read_conn(std::fs::read(matrix).unwrap().as_slice()).map_err(|e| format!("{}", e))?;
    b.read_lexicon(std::fs::read(csv).unwrap().as_slice()).map_err(|e| format!("{}", e))?;
    b.resolve().map_err(|e| format!("{}", e))?;
    let mut out = Vec::new();
    b.compile(&mut out).map_err(|e| format!("{}", e))?;
    Ok(out)
}

fn le32(b: &[u8], at: usize) -> usize {
    u32::from_le_bytes([b[at], b[at + 1], b[at + 2], b[at + 3]]) as usize
}

/// c04 <matrix.def> <lex.csv>...: per dictionary print the double array and the word-id table
/// (located with the public loader API: header size + grammar.storage_size, then the documented
/// layout `u32 units; units; u32 bytes; table`).
fn c04(args: &[String]) {
    use sudachi::dic::header::Header;
    use sudachi::dic::DictionaryLoader;
    let matrix = &args[0];
    for csv in &args[1..] {
        let bytes = match compile_system(matrix, csv) {
            Ok(b) => b,
            Err(e) => {
                println!("{}\tERR\t{}", csv, e.replace('\n', " "));
                continue;
            }
        };
        let dl = DictionaryLoader::read_system_dictionary(&bytes).expect("loads");
        let lexoff = Header::STORAGE_SIZE + dl.grammar.as_ref().unwrap().storage_size;
        let nunits = le32(&bytes, lexoff);
        let t0 = lexoff + 4;
        let units: Vec<String> = (0..nunits).map(|i| le32(&bytes, t0 + 4 * i).to_string()).collect();
        let tsz_at = t0 + 4 * nunits;
        let tsz = le32(&bytes, tsz_at);
        let table: Vec<String> = bytes[tsz_at + 4..tsz_at + 4 + tsz].iter().map(|b| b.to_string()).collect();
        println!("{}\tOK\t{}\t{}\t{}\t{}", csv, dl.lexicon.size(), units.join(","), table.join(","), lexoff);
        let dump = format!("{}.dic", csv);
        std::fs::write(dump, &bytes).unwrap();
    }
}

fn main() {
    let args: Vec<String> = std::env::args().skip(1).collect();
    match args.get(0).map(|s| s.as_str()) {
        Some("c17") => c17(&args[1..]),
        Some("c04") => c04(&args[1..]),
        _ => {
            eprintln!("usage: verif-gen c17 <char.def>...");
            std::process::exit(2);
        }
    }
}
