//! Native table generator: runs the repository's own loader/builder code on concrete
//! inputs and prints what it produced, so that Kani harnesses can be given the tables
//! the *current* /repo code computes (DESIGN §3.1 step 2).
use std::io::BufReader;
use sudachi::dic::character_category::CharacterCategory;

fn c17(paths: &[String]) {
    // one line per file:  <path>\t<begin>:<end>:<bits>,...   or  <path>\tERR
    for p in paths {
        let f = std::fs::File::open(p).expect("open");
        match CharacterCategory::from_reader(BufReader::new(f)) {
            Ok(cc) => {
                let parts: Vec<String> = cc
                    .iter()
                    .map(|(r, c)| format!("{}:{}:{}", r.start as u32, r.end as u32, c.bits()))
                    .collect();
                println!("{}\t{}", p, parts.join(","));
            }
            Err(_) => println!("{}\tERR", p),
        }
    }
}

/// Compile a system dictionary with the repository's DictBuilder and return its bytes.
fn compile_system(matrix: &str, csv: &str) -> Result<Vec<u8>, String> {
    use sudachi::dic::build::DictBuilder;
    let mut b = DictBuilder::new_system();
    b.read_conn(std::fs::read(matrix).unwrap().as_slice()).map_err(|e| format!("{}", e))?;
    b.read_lexicon(std::fs::read(csv).unwrap().as_slice()).map_err(|e| format!("{}", e))?;
    b.resolve().map_err(|e| format!("{}", e))?;
    let mut out = Vec::new();
    b.compile(&mut out).map_err(|e| format!("{}", e))?;
    Ok(out)
}

fn le32(b: &[u8], at: usize) -> usize {
    u32::from_le_bytes([b[at], b[at + 1], b[at + 2], b[at + 3]]) as usize
}

/// c04 <matrix.def> <lex.csv>...: per dictionary print the double array and the word-id table
/// (located with the public loader API: header size + grammar.storage_size, then the documented
/// layout `u32 units; units; u32 bytes; table`).
fn c04(args: &[String]) {
    use sudachi::dic::header::Header;
    use sudachi::dic::DictionaryLoader;
    let matrix = &args[0];
    for csv in &args[1..] {
        let bytes = match compile_system(matrix, csv) {
            Ok(b) => b,
            Err(e) => {
                println!("{}\tERR\t{}", csv, e.replace('\n', " "));
                continue;
            }
        };
        let dl = DictionaryLoader::read_system_dictionary(&bytes).expect("loads");
        let lexoff = Header::STORAGE_SIZE + dl.grammar.as_ref().unwrap().storage_size;
        let nunits = le32(&bytes, lexoff);
        let t0 = lexoff + 4;
        let units: Vec<String> = (0..nunits).map(|i| le32(&bytes, t0 + 4 * i).to_string()).collect();
        let tsz_at = t0 + 4 * nunits;
        let tsz = le32(&bytes, tsz_at);
        let table: Vec<String> = bytes[tsz_at + 4..tsz_at + 4 + tsz].iter().map(|b| b.to_string()).collect();
        println!("{}\tOK\t{}\t{}\t{}\t{}", csv, dl.lexicon.size(), units.join(","), table.join(","), lexoff);
        let dump = format!("{}.dic", csv);
        std::fs::write(dump, &bytes).unwrap();
    }
}

/// c04search <matrix.def> <outdir> <seed> <tries>: look for key sets whose double array contains a
/// "value unit next to a node": a node N reachable by a key prefix and a byte b (not a child of N) such
/// that the slot N.base ^ b holds a value (leaf) unit whose low byte equals b.  Such layouts are the ones
/// where a walk that forgets the leaf flag goes wrong; the lookup harness is then run on them.
fn c04search(args: &[String]) {
    let matrix = &args[0];
    let outdir = &args[1];
    let mut state: u64 = args[2].parse::<u64>().unwrap().wrapping_mul(6364136223846793005).wrapping_add(1442695040888963407);
    let tries: usize = args[3].parse().unwrap();
    let mut next = move |m: u64| -> u64 {
        state = state.wrapping_mul(6364136223846793005).wrapping_add(1442695040888963407);
        (state >> 33) % m
    };
    let mut found = 0;
    for t in 0..tries {
        // random key set over a small alphabet, random homograph counts (they move the table offsets)
        let nkeys = 6 + next(9) as usize;
        let mut rows = String::new();
        let mut keys: Vec<String> = Vec::new();
        for _ in 0..nkeys {
            let len = 1 + next(3) as usize;
            let k: String = (0..len).map(|_| (b'a' + next(6) as u8) as char).collect();
            if keys.contains(&k) {
                continue;
            }
            let reps = 1 + next(3);
            for _ in 0..reps {
                rows.push_str(&format!("{},0,0,100,{},名詞,*,*,*,*,*,ヨミ,{},*,A,*,*,*,*\n", k, k, k));
            }
            keys.push(k);
        }
        let csv = format!("{}/search_{}.csv", outdir, t);
        std::fs::write(&csv, &rows).unwrap();
        let bytes = match compile_system(matrix, &csv) {
            Ok(b) => b,
            Err(_) => continue,
        };
        let dl = sudachi::dic::DictionaryLoader::read_system_dictionary(&bytes).expect("loads");
        let lexoff = sudachi::dic::header::Header::STORAGE_SIZE + dl.grammar.as_ref().unwrap().storage_size;
        let n = le32(&bytes, lexoff);
        let units: Vec<u32> = (0..n).map(|i| le32(&bytes, lexoff + 4 + 4 * i) as u32).collect();
        let offset = |u: u32| -> usize { ((u >> 10) << ((u & (1 << 9)) >> 6)) as usize };
        // walk all nodes reachable by key prefixes
        let mut stack: Vec<(usize, Vec<u8>)> = vec![(offset(units[0]), Vec::new())];
        let mut hit: Option<(Vec<u8>, u8)> = None;
        while let Some((pos, path)) = stack.pop() {
            for b in 1u32..256 {
                let idx = pos ^ b as usize;
                if idx >= units.len() {
                    continue;
                }
                let u = units[idx];
                if u & 0x8000_0000 != 0 {
                    if (u & 0xff) == b && path.len() <= 3 && hit.is_none() {
                        hit = Some((path.clone(), b as u8));
                    }
                } else if (u & 0xff) == b && u != 0 {
                    let mut p2 = path.clone();
                    p2.push(b as u8);
                    if p2.len() <= 4 {
                        stack.push((idx ^ offset(u), p2));
                    }
                }
            }
        }
        if let Some((path, b)) = hit {
            println!("{}\t{:?}\t{}", csv, path, b);
            found += 1;
            if found >= 2 {
                break;
            }
        } else {
            let _ = std::fs::remove_file(&csv);
        }
    }
}

fn main() {
    let args: Vec<String> = std::env::args().skip(1).collect();
    match args.get(0).map(|s| s.as_str()) {
        Some("c17") => c17(&args[1..]),
        Some("c04") => c04(&args[1..]),
        Some("c04search") => c04search(&args[1..]),
        _ => {
            eprintln!("usage: verif-gen c17 <char.def>...");
            std::process::exit(2);
        }
    }
}
