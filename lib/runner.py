"""Runner for the solver-based checks of sudachi.rs (see /verif/DESIGN.md §3).

One invocation decides one property at one tier:
  1. the harness text for the property (/verif/kani/<ID>/*.rs, plus what
     /verif/kani/<ID>/spec.py generates) is written to a scratch directory that the
     cfg(kani) hooks in /repo include!;
  2. `cargo kani` compiles /repo's *current working tree* and CBMC decides every
     harness (one process per harness, run in parallel, each under a memory cap
     and a timeout);
  3. results are parsed per CBMC check, failures are replayed natively with
     `cargo kani playback`, known findings are applied, evidence is written.

Exit codes: 0 held / only listed findings, 1 VIOLATION (replayed), 2 inconclusive
(timeout, out of memory, insufficient unwinding, vacuous harness, non-reproducing
counterexample, build failure).
"""
import fcntl
import importlib.util
import json
import os
import re
import resource
import shutil
import signal
import subprocess
import sys
import threading
import time

VERIF = os.path.dirname(os.path.dirname(os.path.abspath(__file__)))
# evidence/ and replays/ go under VERIF_OUT (default: /verif); redirected when a seeded change is being tried
OUT = os.environ.get("VERIF_OUT", VERIF)
REPO = os.environ.get("VERIF_REPO", "/repo")
SCRATCH_ROOT = os.environ.get("VERIF_SCRATCH", "/var/tmp/sudachi-verif")

HOOK_MODULES = """analysis__lattice analysis__created analysis__inner analysis__node
analysis__mlist analysis__stateful_tokenizer analysis__stateless_tokenizer dic__connect
dic__character_category dic__category_type dic__grammar dic__header dic__lexicon__trie
dic__lexicon__word_id_table dic__lexicon__word_infos dic__lexicon__word_params
dic__lexicon__mod dic__lexicon_set dic__word_id dic__subset dic__read__word_info
dic__read__u16str dic__read__mod dic__build__mod dic__build__conn dic__build__index
dic__build__primitives dic__build__lexicon dic__build__parse input_text__buffer__mod
input_text__buffer__edit util__check_params util__cow_array util__user_pos
plugin__connect_cost__inhibit_connection plugin__oov__mecab_oov__mod
plugin__oov__simple_oov__mod sentence_splitter sentence_detector cli__main""".split()

BASE_ENV = dict(os.environ)
BASE_ENV.update({"CARGO_NET_OFFLINE": "true", "CARGO_TERM_COLOR": "never"})

TRUSTED_BASE = [
    "rustc MIR of Kani's pinned toolchain (nightly-2026-08-21) for /repo's current source",
    "Kani 0.68 MIR->goto translation and its models of alloc/intrinsics (debug-assertions on, overflow checks on)",
    "CBMC 6.11 bit-precise symbolic execution, unwinding assertions on; cadical SAT back end",
    "the harness oracles, assumptions and stubs listed per harness",
]


def log(*a):
    print(*a, flush=True)


# --------------------------------------------------------------------------- spec

class Harness:
    """One #[kani::proof] function and what it stands for."""

    def __init__(self, name, module, functions, bound, kernel="", assumptions=(),
                 stubs=(), tiers=("quick", "thorough"), timeout_s=900, mem_gb=12,
                 cbmc_args=(), required=True, package="sudachi", outside=(),
                 shape=None, fs_array=False, finding=None, replay_alt=None, rust_mod=None):
        self.name = name
        self.module = module
        self.functions = list(functions)
        self.bound = bound
        self.kernel = kernel
        self.assumptions = list(assumptions)
        self.stubs = list(stubs)
        self.tiers = tuple(tiers)
        self.timeout_s = timeout_s
        self.mem_gb = mem_gb
        self.cbmc_args = list(cbmc_args)
        if fs_array:
            self.cbmc_args += ["--max-field-sensitivity-array-size", "4096"]
        self.required = required
        self.package = package
        self.outside = list(outside)
        self.shape = shape
        self.finding = finding  # id in known_findings.json whose region this twin assumes
        # name of a sibling harness with the same assertions at a smaller bound, used only to obtain a native replay
        # when Kani's concrete-playback run of this harness exceeds its memory cap (playback disables formula slicing)
        self.replay_alt = replay_alt
        # name of the harness module inside the hooked file (default verif_<property>)
        self.rust_mod = rust_mod
        self.result = None


def load_spec(prop):
    path = os.path.join(VERIF, "kani", prop, "spec.py")
    if not os.path.exists(path):
        raise SystemExit("no checks registered for property %s" % prop)
    sp = importlib.util.spec_from_file_location("spec_" + prop, path)
    mod = importlib.util.module_from_spec(sp)
    sys.path.insert(0, os.path.join(VERIF, "lib"))
    sp.loader.exec_module(mod)
    return mod


def load_findings():
    p = os.path.join(VERIF, "known_findings.json")
    if not os.path.exists(p):
        return []
    return json.load(open(p)).get("findings", [])


# --------------------------------------------------------------------------- harness text

KF_RE = re.compile(r"^[ \t]*//@KF ([A-Za-z0-9_-]+): (.*)$", re.M)
H_RE = re.compile(r"^[ \t]*//@H ([A-Za-z0-9_]+)[ \t]*\n(.*?)^[ \t]*//@END[ \t]*$", re.M | re.S)


def expand_known_findings(text, open_ids):
    """`//@KF <id>: <region expr>` inside a `//@H name ... //@END` block.

    If <id> is an *open* listed finding: the harness gets `kani::assume(!(region))`
    (everything outside the region must hold) and a twin `<name>__kf` with
    `kani::assume(region)` is added, which is expected to fail (finding still there).
    Otherwise the marker vanishes and the harness covers the whole domain.
    Returns (text, [(twin_name, base_name, finding_id)]).
    """
    twins = []

    def do_block(m):
        name, body = m.group(1), m.group(2)
        kfs = KF_RE.findall(body)
        if not kfs:
            return body
        active = [(i, r) for i, r in kfs if i in open_ids]

        def repl_main(mm):
            if mm.group(1) in open_ids:
                return "        kani::assume(!(%s));" % mm.group(2)
            return ""
        main = KF_RE.sub(repl_main, body)
        out = main
        for fid, region in active:
            def repl_twin(mm, fid=fid):
                if mm.group(1) == fid:
                    return "        kani::assume(%s);" % mm.group(2)
                if mm.group(1) in open_ids:
                    return "        kani::assume(!(%s));" % mm.group(2)
                return ""
            twin_name = "%s__kf_%s" % (name, re.sub(r"[^A-Za-z0-9]", "_", fid).lower())
            twin = KF_RE.sub(repl_twin, body)
            twin, n = re.subn(r"\bfn %s\b" % re.escape(name), "fn " + twin_name, twin)
            if n != 1:
                raise SystemExit("cannot derive known-finding twin for " + name)
            out += "\n" + twin
            twins.append((twin_name, name, fid))
        return out

    return H_RE.sub(do_block, text), twins


def substitute(text, params):
    def r(m):
        k = m.group(1)
        if k not in params:
            raise SystemExit("template parameter @%s@ undefined" % k)
        return str(params[k])
    return re.sub(r"/\*@([A-Z0-9_]+)@\*/[^\s;,)\]]*", r, text)


# --------------------------------------------------------------------------- kani output

CHECK_RE = re.compile(
    r"^Check (\d+): ([^\n]+)\n\s+- Status: (\w+)\n\s+- Description: \"(.*?)\"\n\s+- Location: (.*?)$",
    re.M | re.S)


def parse_kani_output(out):
    checks = []
    for m in CHECK_RE.finditer(out):
        checks.append({"id": m.group(2), "status": m.group(3),
                       "description": m.group(4).strip('"'), "location": m.group(5).strip()})
    res = {"checks": checks}
    m = re.search(r"VERIFICATION:- (\w+)", out)
    res["verdict_line"] = m.group(1) if m else None
    m = re.search(r"Runtime Symex: ([0-9.e+-]+)s", out)
    res["symex_s"] = float(m.group(1)) if m else None
    res["solver_s"] = sum(float(x) for x in re.findall(r"Runtime Solver: ([0-9.e+-]+)s", out))
    res["solver_runs"] = len(re.findall(r"Runtime Solver: ", out))
    m = re.search(r"(\d+) variables, (\d+) clauses", out)
    res["sat_vars"], res["sat_clauses"] = (int(m.group(1)), int(m.group(2))) if m else (0, 0)
    m = re.search(r"size of program expression: (\d+) steps", out)
    res["steps"] = int(m.group(1)) if m else 0
    res["stubs_applied"] = re.findall(r"- Stub: (.*)", out)
    res["oom"] = bool(re.search(r"Status: ERROR|std::bad_alloc|Out of memory|memory exhausted|SIGKILL|Killed", out))
    return res


def classify(h, parsed, rc, timed_out):
    """-> (verdict, details).  verdict in pass|fail|inconclusive."""
    checks = parsed["checks"]
    covers = [c for c in checks if ".cover." in c["id"]]
    asserts = [c for c in checks if ".cover." not in c["id"]]
    fails = [c for c in asserts if c["status"] == "FAILURE"]
    unwind = [c for c in fails if c["description"].startswith("unwinding assertion")]
    unsupported = [c for c in fails if ".unsupported_construct." in c["id"] or "is not currently supported by Kani" in c["description"]
                   or "getrandom" in c["location"]]
    real = [c for c in fails if c not in unwind and c not in unsupported]
    d = {"obligations": len(asserts), "discharged": sum(1 for c in asserts if c["status"] == "SUCCESS"),
         "unreachable": sum(1 for c in asserts if c["status"] == "UNREACHABLE"),
         "covers": len(covers), "covers_satisfied": sum(1 for c in covers if c["status"] == "SATISFIED"),
         "cover_descriptions": [c["description"] for c in covers if c["status"] == "SATISFIED"],
         "failed_checks": real}
    if timed_out:
        return "inconclusive", dict(d, reason="timeout after %ds" % h.timeout_s)
    if real:
        return "fail", dict(d, reason="%d failed check(s)" % len(real))
    if not checks:
        if parsed["oom"] or rc in (-9, 137):
            return "inconclusive", dict(d, reason="out of memory (cap %d GB)" % h.mem_gb)
        return "inconclusive", dict(d, reason="no CBMC result (exit %s)" % rc)
    if unwind:
        return "inconclusive", dict(d, reason="unwinding bound too small: " + unwind[0]["location"])
    if unsupported:
        return "inconclusive", dict(d, reason="reachable construct unsupported by Kani: " + unsupported[0]["description"][:80])
    if parsed["verdict_line"] != "SUCCESSFUL":
        if parsed["oom"]:
            return "inconclusive", dict(d, reason="out of memory (cap %d GB)" % h.mem_gb)
        return "inconclusive", dict(d, reason="verification line: %s" % parsed["verdict_line"])
    bad_cov = [c for c in covers if c["status"] != "SATISFIED"]
    if bad_cov:
        return "inconclusive", dict(d, reason="vacuity witness not satisfied: %s (%s)" % (bad_cov[0]["description"], bad_cov[0]["status"]))
    undet = [c for c in asserts if c["status"] not in ("SUCCESS", "UNREACHABLE")]
    if undet:
        return "inconclusive", dict(d, reason="undetermined check: " + undet[0]["description"])
    return "pass", d


# --------------------------------------------------------------------------- process helpers

def _limits(mem_gb):
    def f():
        os.setsid()
        if mem_gb:
            b = int(mem_gb * (1 << 30))
            resource.setrlimit(resource.RLIMIT_AS, (b, b))
    return f


def run_cmd(cmd, cwd, env, timeout, mem_gb=None, logf=None):
    t0 = time.time()
    p = subprocess.Popen(cmd, cwd=cwd, env=env, stdout=subprocess.PIPE, stderr=subprocess.STDOUT,
                         preexec_fn=_limits(mem_gb), text=True, errors="replace")
    timed_out = False
    try:
        out, _ = p.communicate(timeout=timeout)
    except subprocess.TimeoutExpired:
        timed_out = True
        try:
            os.killpg(p.pid, signal.SIGKILL)
        except ProcessLookupError:
            pass
        out, _ = p.communicate()
    if logf:
        with open(logf, "w") as f:
            f.write("$ " + " ".join(cmd) + "\n" + out)
    return p.returncode, out, timed_out, time.time() - t0


def mem_available_gb():
    for l in open("/proc/meminfo"):
        if l.startswith("MemAvailable:"):
            return int(l.split()[1]) / (1 << 20)
    return 8.0


class Ctx:
    def __init__(self, prop, tier, seed, suffix=""):
        self.prop, self.tier, self.seed = prop, tier, seed
        self.scratch = os.path.join(SCRATCH_ROOT, "%s.%s%s" % (prop, tier, suffix))
        self.hdir = os.path.join(self.scratch, "h")
        self.target = os.path.join(self.scratch, "target")
        self.logs = os.path.join(self.scratch, "logs")
        self.env = dict(BASE_ENV, SUDACHI_VERIF_DIR=self.hdir)
        self.gen_out = {}

    def kani_base(self, h):
        cmd = ["cargo", "kani", "-p", h.package, "--target-dir", self.target,
               "-Z", "unstable-options", "-Z", "stubbing"]
        return cmd

    def kani_cmd(self, h, extra=()):
        cmd = self.kani_base(h) + ["--exact", "--harness", self.full_name(h)] + list(extra)
        if h.cbmc_args:
            cmd += ["--cbmc-args"] + h.cbmc_args
        return cmd

    def full_name(self, h):
        rm = h.rust_mod or "verif_%s" % self.prop.lower()
        if h.package == "sudachi-cli":
            return "%s::%s" % (rm, h.name)
        mod = h.module.replace("__mod", "").replace("__", "::")
        return "%s::%s::%s" % (mod, rm, h.name)

    # native generator step (tables produced by the repository's own builder code)
    def run_gen(self, args, timeout=900, verif_cfg=False):
        gen_dir = os.path.join(VERIF, "gen")
        if REPO != "/repo":
            # checking a copy of the repository (VERIF_REPO): the generator's path dependency must follow
            alt = os.path.join(self.scratch, "gen-src")
            if not os.path.isdir(alt):
                shutil.copytree(gen_dir, alt, ignore=shutil.ignore_patterns("target", "Cargo.lock"))
                ct = open(os.path.join(alt, "Cargo.toml")).read().replace('path = "/repo/sudachi"', 'path = "%s/sudachi"' % REPO)
                open(os.path.join(alt, "Cargo.toml"), "w").write(ct)
            gen_dir = alt
        env = dict(self.env)
        if verif_cfg:
            env["RUSTFLAGS"] = (env.get("RUSTFLAGS", "") + " --cfg sudachi_verif").strip()
        env["CARGO_TARGET_DIR"] = os.path.join(self.scratch, "gen-target")
        shutil.copy(os.path.join(REPO, "Cargo.lock"), os.path.join(gen_dir, "Cargo.lock"))
        p = subprocess.run(["cargo", "run", "--offline", "-q", "--"] + args, cwd=gen_dir, env=env, timeout=timeout,
                           stdout=subprocess.PIPE, stderr=subprocess.PIPE, text=True)
        rc, out, to = p.returncode, p.stdout, False
        open(os.path.join(self.logs, "gen.log"), "a").write(p.stderr[-20000:])
        if rc != 0 or to:
            log(p.stderr[-3000:])
            raise Inconclusive("generator failed (rc=%s)" % rc)
        return out


class Inconclusive(Exception):
    pass


# --------------------------------------------------------------------------- main flow

def prepare(ctx, spec, findings):
    os.makedirs(SCRATCH_ROOT, exist_ok=True)
    if os.path.isdir(ctx.scratch):
        shutil.rmtree(ctx.scratch, ignore_errors=True)
    os.makedirs(ctx.hdir)
    os.makedirs(ctx.logs)
    for m in HOOK_MODULES:
        open(os.path.join(ctx.hdir, m + ".rs"), "w").close()
    params = dict(spec.params(ctx)) if hasattr(spec, "params") else dict(getattr(spec, "PARAMS", {}).get(ctx.tier, {}))
    texts = {}
    kdir = os.path.join(VERIF, "kani", ctx.prop)
    for fn in sorted(os.listdir(kdir)):
        if fn.endswith(".rs"):
            texts[fn[:-3]] = open(os.path.join(kdir, fn)).read()
    cdir = os.path.join(VERIF, "kani", "_common")
    for fn in sorted(os.listdir(cdir)):
        if fn.endswith(".rs"):
            texts[fn[:-3]] = open(os.path.join(cdir, fn)).read() + "\n" + texts.get(fn[:-3], "")
    harnesses = list(spec.harnesses(ctx)) if hasattr(spec, "harnesses") else []
    if hasattr(spec, "generate"):
        for mod, t in spec.generate(ctx).items():
            texts[mod] = texts.get(mod, "") + "\n" + t
    open_ids = {f["id"] for f in findings if f.get("property") == ctx.prop and f.get("status") == "open"}
    twins = []
    for mod in list(texts):
        t = substitute(texts[mod], params)
        t, tw = expand_known_findings(t, open_ids)
        twins += [(mod,) + x for x in tw]
        texts[mod] = t
    byname = {h.name: h for h in harnesses}
    for mod, twin_name, base, fid in twins:
        b = byname.get(base)
        if b is None:
            continue
        th = Harness(twin_name, b.module, b.functions, b.bound + " restricted to the region of listed finding " + fid,
                     kernel=b.kernel, assumptions=b.assumptions + ["input inside the region of " + fid],
                     stubs=b.stubs, tiers=b.tiers, timeout_s=b.timeout_s, mem_gb=b.mem_gb,
                     cbmc_args=b.cbmc_args, required=False, package=b.package, finding=fid)
        harnesses.append(th)
    for mod, t in texts.items():
        if mod not in HOOK_MODULES:
            raise SystemExit("harness file for unknown hook module " + mod)
        wrapped = t
        with open(os.path.join(ctx.hdir, mod + ".rs"), "w") as f:
            f.write(wrapped)
    ctx.alts = {h.name: h for h in harnesses if "replay-only" in h.tiers}
    return [h for h in harnesses if ctx.tier in h.tiers]


def build(ctx, harnesses):
    """Compile /repo's working tree with the harnesses (one build per package)."""
    t0 = time.time()
    for pkg in sorted({h.package for h in harnesses}):
        cmd = ["cargo", "kani", "-p", pkg, "--target-dir", ctx.target, "-Z", "unstable-options",
               "-Z", "stubbing", "--only-codegen"]
        rc, out, to, dt = run_cmd(cmd, REPO, ctx.env, 1800, logf=os.path.join(ctx.logs, "build-%s.log" % pkg))
        if rc != 0 or to:
            log(out[-6000:])
            raise Inconclusive("kani build of %s failed (rc=%s)" % (pkg, rc))
    return time.time() - t0


def run_one(ctx, h):
    logf = os.path.join(ctx.logs, h.name + ".log")
    rc, out, to, dt = run_cmd(ctx.kani_cmd(h), REPO, ctx.env, h.timeout_s, h.mem_gb, logf)
    parsed = parse_kani_output(out)
    verdict, det = classify(h, parsed, rc, to)
    if not parsed["checks"] and not to and "no harnesses matched" in out.lower():
        verdict, det = "inconclusive", dict(det, reason="harness not found: " + ctx.full_name(h))
    h.result = {"verdict": verdict, "wall_s": round(dt, 1), "symex_s": parsed["symex_s"],
                "solver_s": round(parsed["solver_s"], 3), "solver_runs": parsed["solver_runs"],
                "sat_vars": parsed["sat_vars"], "sat_clauses": parsed["sat_clauses"],
                "program_steps": parsed["steps"], "stubs_applied": parsed["stubs_applied"], **det}
    return h


def schedule(ctx, harnesses, jobs):
    """Run harnesses in parallel, never committing more memory than is available."""
    pending = sorted(harnesses, key=lambda h: -h.timeout_s)
    running = {}
    lock = threading.Lock()
    done = []

    def worker(h):
        try:
            run_one(ctx, h)
        except Exception as e:  # noqa
            h.result = {"verdict": "inconclusive", "reason": "runner error: %r" % e, "wall_s": 0,
                        "obligations": 0, "discharged": 0, "covers": 0, "covers_satisfied": 0,
                        "cover_descriptions": [], "failed_checks": [], "solver_runs": 0, "solver_s": 0}
        with lock:
            running.pop(h.name, None)
            done.append(h)
        r = h.result
        log("  [%s] %-44s %6.1fs  %s" % (r["verdict"].upper()[:4], h.name, r["wall_s"],
                                         r.get("reason", "%d/%d checks, %d/%d covers" % (
                                             r["discharged"] + r.get("unreachable", 0), r["obligations"],
                                             r["covers_satisfied"], r["covers"]))))

    while pending or running:
        with lock:
            committed = sum(x.mem_gb for x in running.values())
            n = len(running)
        started = False
        if pending and n < jobs:
            h = pending[0]
            avail = mem_available_gb()
            if n == 0 or (committed + h.mem_gb <= 52 and avail > h.mem_gb * 0.6 + 4):
                pending.pop(0)
                with lock:
                    running[h.name] = h
                threading.Thread(target=worker, args=(h,), daemon=True).start()
                started = True
        if not started:
            time.sleep(0.5)
    return done


MAX_REPLAYS = 3


def gen_playback_test(ctx, h):
    """Ask Kani for the concrete values of the first failing check -> (test name, test source, values) or None."""
    cmd = ctx.kani_cmd(h, ["-Z", "concrete-playback", "--concrete-playback=print"])
    rc, out, to, dt = run_cmd(cmd, REPO, ctx.env, min(h.timeout_s * 2 + 120, 1200), max(40, 3 * h.mem_gb),
                              os.path.join(ctx.logs, h.name + ".playback-gen.log"))
    tests = re.findall(r"```\n(.*?)```", out, re.S)
    failing = [t for t in tests if "Check for `cover`" not in t]
    if not failing:
        return None
    test = failing[0]
    tname = re.search(r"fn (kani_concrete_playback_\w+)\(", test).group(1)
    vals = re.search(r"let concrete_vals.*?\];", test, re.S).group(0)
    return tname, test, vals


def insert_tests(ctx, module, tests):
    path = os.path.join(ctx.hdir, module + ".rs")
    src = open(path).read()
    idx = src.rstrip().rfind("}")  # tests go inside the (last) harness module of the file
    open(path, "w").write(src[:idx] + "\n" + "\n".join(tests) + "\n}\n")
    return path, src


def run_playback(ctx, package, names, tag):
    """Run generated tests natively (dev profile, debug assertions on) -> {test name: (reproduced, panic text)}"""
    env = dict(ctx.env, CARGO_TARGET_DIR=os.path.join(ctx.scratch, "playback-target"))
    cmd = ["cargo", "kani", "playback", "-Z", "concrete-playback", "-p", package, "--", "kani_concrete_playback"]
    rc, out, to, dt = run_cmd(cmd, REPO, env, 2400, None, os.path.join(ctx.logs, "playback-%s.log" % tag))
    res = {}
    for n in names:
        m = re.search(r"test \S*%s \.\.\. (\w+)" % re.escape(n), out)
        if not m:
            res[n] = (None, out[-1200:])
        elif m.group(1) == "FAILED":
            pm = re.search(r"---- \S*%s stdout ----\n(.*?)(?:\nstack backtrace|\n\n)" % re.escape(n), out, re.S)
            res[n] = (True, (pm.group(1).strip() if pm else "")[:600])
        else:
            res[n] = (False, "")
    return res


def playback_batch(ctx, failed):
    """Replay up to MAX_REPLAYS failing harnesses natively; -> {harness name: (reproduced|None, info)}"""
    out = {}
    todo = failed[:MAX_REPLAYS]
    gens = {}
    threads = []
    def gen_with_alt(h):
        g = gen_playback_test(ctx, h)
        alt = getattr(ctx, "alts", {}).get(h.replay_alt) if h.replay_alt else None
        if g is None and alt is not None:
            log("   playback of %s could not be generated; trying its smaller sibling %s" % (h.name, alt.name))
            g = gen_playback_test(ctx, alt)
            if g is not None:
                h.replayed_through = alt.name
        return g

    for h in todo:
        t = threading.Thread(target=lambda h=h: gens.__setitem__(h.name, gen_with_alt(h)))
        t.start()
        threads.append(t)
    for t in threads:
        t.join()
    bypkg = {}
    for h in todo:
        g = gens.get(h.name)
        if not g:
            out[h.name] = (None, {"reason": "Kani produced no concrete playback test for the failure"})
            continue
        bypkg.setdefault(h.package, []).append((h, g))
    for pkg, items in bypkg.items():
        saved = {}
        bymod = {}
        for h, g in items:
            bymod.setdefault(h.module, []).append(g[1])
        for mod, tests in bymod.items():
            path, src = insert_tests(ctx, mod, tests)
            saved[path] = src
        res = run_playback(ctx, pkg, [g[0] for _, g in items], pkg)
        for path, src in saved.items():
            open(path, "w").write(src)
        for h, g in items:
            rep, panic = res[g[0]]
            out[h.name] = (rep, {"test": g[0], "concrete_vals": g[2], "profile": "dev (debug assertions on)",
                                 "reproduced": rep, "panic": panic,
                                 "replayed_harness": getattr(h, "replayed_through", h.name)})
    return out


def decide(prop, tier, seed, keep=False, only=None, jobs=None):
    t0 = time.time()
    spec = load_spec(prop)
    findings = load_findings()
    ctx = Ctx(prop, tier, seed)
    os.makedirs(SCRATCH_ROOT, exist_ok=True)
    lockf = open(os.path.join(SCRATCH_ROOT, ".%s.%s.lock" % (prop, tier)), "w")
    fcntl.flock(lockf, fcntl.LOCK_EX)
    status, lines = 0, []
    harnesses = []
    build_s = 0.0
    replays = []
    note = None
    try:
        harnesses = prepare(ctx, spec, findings)
        shutil.rmtree(os.path.join(OUT, "replays", prop), ignore_errors=True)
        if only:
            harnesses = [h for h in harnesses if any(o in h.name for o in only)]
        log("== %s tier=%s seed=%d: %d harnesses; building /repo working tree with Kani" % (prop, tier, seed, len(harnesses)))
        build_s = build(ctx, harnesses)
        log("   build %.0fs; deciding" % build_s)
        if jobs is None:
            jobs = 14
        schedule(ctx, harnesses, jobs)
        fmap = {f["id"]: f for f in findings}
        # a known-finding twin may only fail in the checks its entry lists; anything else is a new violation
        for h in harnesses:
            if h.finding and h.result["verdict"] == "fail":
                pats = fmap[h.finding].get("check_patterns") or []
                other = [c for c in h.result["failed_checks"] if not any(p in c["description"] for p in pats)]
                if pats and other:
                    h.result["unlisted_failures_in_known_region"] = other
                    h.finding_unlisted = True
        failed = [h for h in harnesses if h.result["verdict"] == "fail" and (not h.finding or getattr(h, "finding_unlisted", False))]
        for h in failed:
            log("   counterexample in %s: %s" % (
                h.name, "; ".join("%s @ %s" % (c["description"], c["location"].split(" in function")[0]) for c in h.result["failed_checks"][:3])))
        pb = {}
        if failed:
            log("   replaying %d of %d counterexample(s) natively (cargo kani playback)" % (min(len(failed), MAX_REPLAYS), len(failed)))
            pb = playback_batch(ctx, failed)
        any_reproduced = any(v[0] for v in pb.values())
        for h in harnesses:
            r = h.result
            if h.finding and not getattr(h, "finding_unlisted", False):
                f = fmap[h.finding]
                if r["verdict"] == "fail":
                    l = "KNOWN-FINDING: property=%s %s: %s" % (prop, f["id"], f["what_fails"])
                    if l not in lines:
                        lines.append(l)
                    r["known_finding"] = f["id"]
                elif r["verdict"] == "pass":
                    log("   note: listed finding %s no longer reproduces in %s" % (f["id"], h.name))
                    r["known_finding_gone"] = f["id"]
                continue
            if r["verdict"] == "fail":
                if h.name in pb:
                    rep, info = pb[h.name]
                    r["replay"] = info
                    if rep:
                        os.makedirs(os.path.join(OUT, "replays", prop), exist_ok=True)
                        rp = os.path.join(OUT, "replays", prop, h.name + ".json")
                        json.dump({"property": prop, "harness": info.get("replayed_harness", h.name), "found_by": h.name, "module": h.module, "package": h.package,
                                   "tier": tier, "seed": seed, "failed_checks": r["failed_checks"], "replay": info,
                                   "harness_file": os.path.join("kani", prop, h.module + ".rs"),
                                   "how": "bin/check %s --replay %s" % (prop, rp)}, open(rp, "w"), indent=1)
                        lines.append("VIOLATION property=%s replay=%s" % (prop, rp))
                        replays.append(rp)
                        status = 1
                    elif rep is False:
                        r["verdict"] = "inconclusive"
                        r["reason"] = "counterexample did not reproduce natively (harness/stub/model suspect)"
                        if status == 0:
                            status = 2
                    else:
                        # The solver found a counterexample in the compiled code, but Kani's concrete-playback run (which
                        # disables formula slicing) exceeded its time/memory cap, so no native test exists.  The harness
                        # passes on the unchanged tree, so this is reported, marked as solver-only; --replay re-decides it.
                        os.makedirs(os.path.join(OUT, "replays", prop), exist_ok=True)
                        rp = os.path.join(OUT, "replays", prop, h.name + ".json")
                        json.dump({"property": prop, "harness": h.name, "found_by": h.name, "module": h.module, "package": h.package,
                                   "tier": tier, "seed": seed, "failed_checks": r["failed_checks"],
                                   "replay": {"native_replay": "unavailable", "reason": str(info.get("reason", info.get("panic", "")))[:400],
                                              "kind": "solver counterexample in the goto program compiled from /repo (not replayed natively)"},
                                   "harness_file": os.path.join("kani", prop, h.module + ".rs"),
                                   "how": "bin/check %s --replay %s  (re-runs the harness with the solver on the current tree)" % (prop, rp)},
                                  open(rp, "w"), indent=1)
                        r["reason"] = "solver counterexample; native replay unavailable (playback generation exceeded its cap)"
                        lines.append("VIOLATION property=%s replay=%s" % (prop, rp))
                        replays.append(rp)
                        status = 1
                else:
                    r["replay"] = {"reason": "not replayed (replay budget %d per run); solver counterexample only" % MAX_REPLAYS}
                    if not any_reproduced and status == 0:
                        status = 2
            if r["verdict"] == "inconclusive":
                log("   INCONCLUSIVE %s: %s" % (h.name, r.get("reason")))
                if h.required and status == 0:
                    status = 2
    except Inconclusive as e:
        note = str(e)
        log("INCONCLUSIVE: " + note)
        status = 2
    finally:
        wall = time.time() - t0
        write_evidence(ctx, spec, harnesses, wall, build_s, status, replays, note)
        if not keep:
            shutil.rmtree(ctx.scratch, ignore_errors=True)
        fcntl.flock(lockf, fcntl.LOCK_UN)
    for l in lines:
        log(l)
    npass = sum(1 for h in harnesses if h.result and h.result["verdict"] == "pass")
    log("== %s %s: %d/%d harnesses discharged, exit %d, %.0fs" % (prop, tier, npass, len(harnesses), status, wall))
    return status


def write_evidence(ctx, spec, harnesses, wall, build_s, status, replays, note):
    hs = []
    tot_ob = tot_dis = tot_cov = evals = 0
    solver_s = 0.0
    nontrivial = 0
    for h in harnesses:
        r = h.result or {"verdict": "not run"}
        ob, dis = r.get("obligations", 0), r.get("discharged", 0) + r.get("unreachable", 0)
        tot_ob += ob
        tot_dis += dis if r.get("verdict") == "pass" or h.finding else r.get("discharged", 0)
        tot_cov += r.get("covers_satisfied", 0)
        evals += r.get("solver_runs", 0)
        solver_s += r.get("solver_s", 0) or 0
        if r.get("verdict") == "pass":
            nontrivial += r.get("covers_satisfied", 0)
        hs.append({"harness": h.name, "kernel": h.kernel, "functions_encoded": h.functions,
                   "bound": h.bound, "shape": h.shape, "assumptions": h.assumptions, "stubs": h.stubs,
                   "outside_the_bound": h.outside, "required": h.required,
                   "known_finding_twin_of": h.finding,
                   "result": {k: v for k, v in r.items() if k != "failed_checks"},
                   "failed_checks": r.get("failed_checks", [])})
    assumptions = sorted({a for h in harnesses for a in h.assumptions} | {"stub: " + s for h in harnesses for s in h.stubs})
    ev = {
        "property_id": ctx.prop, "tier": ctx.tier, "seed": ctx.seed, "level": "model_checking",
        "wall_s": round(wall, 1), "violations": len(replays),
        "assumptions": assumptions + list(getattr(spec, "ASSUMPTIONS", [])),
        "coverage": {
            "evaluations": max(evals, 0),
            "distinct_nontrivial": nontrivial,
            "rule": "evaluations = SAT solver runs made by CBMC over the goto programs Kani compiled from /repo's current tree "
                    "(each run decides, for all values of the harness inputs inside the bound, one group of assertions or one cover "
                    "witness); distinct_nontrivial = cover witnesses the solver SATISFIED in harnesses that were fully discharged - "
                    "each is a different, named region of the input space shown reachable (guards against vacuous passes). "
                    "Nothing is sampled.",
            "samples": hs,
            "obligations": tot_ob, "discharged": tot_dis,
            "checker_cmd": "cargo kani -p <pkg> --exact --harness <name> -Z unstable-options -Z stubbing [--cbmc-args ...] (kani 0.68.0, CBMC 6.11.0, cadical)",
            "trusted_base": TRUSTED_BASE,
            "exhaustive": False,
            "harnesses_total": len(harnesses),
            "harnesses_discharged": sum(1 for h in harnesses if h.result and h.result.get("verdict") == "pass"),
            "harnesses_inconclusive": [h.name for h in harnesses if h.result and h.result.get("verdict") == "inconclusive"],
            "cover_witnesses_satisfied": tot_cov,
            "solver_time_s": round(solver_s, 2), "build_s": round(build_s, 1),
            "outside_the_claim": list(getattr(spec, "OUTSIDE", [])),
            "explanation": getattr(spec, "EXPLANATION", ""),
            "exit_status": status, "replays": replays, "note": note,
        },
    }
    os.makedirs(os.path.join(OUT, "evidence"), exist_ok=True)
    tmp = os.path.join(OUT, "evidence", ".%s.json.tmp" % ctx.prop)
    json.dump(ev, open(tmp, "w"), indent=1)
    os.replace(tmp, os.path.join(OUT, "evidence", ctx.prop + ".json"))


def replay_file(prop, path):
    """Re-run a stored counterexample (concrete harness inputs) against /repo's current tree."""
    rp = json.load(open(path))
    if rp.get("replay", {}).get("native_replay") == "unavailable":
        log("no native test was recorded for this counterexample: re-deciding harness %s with the solver on the current tree" % rp["harness"])
        os.environ["VERIF_OUT"] = os.path.join(SCRATCH_ROOT, "replay-out")
        global OUT
        OUT = os.environ["VERIF_OUT"]
        st = decide(prop, rp.get("tier", "quick"), rp.get("seed", 0), only=[rp["harness"]])
        if st == 1:
            log("VIOLATION property=%s replay=%s" % (prop, path))
        return st
    spec = load_spec(prop)
    ctx = Ctx(prop, rp.get("tier", "quick"), rp.get("seed", 0), suffix=".replay")
    try:
        prepare(ctx, spec, [])
        test = "#[test]\nfn %s() {\n    %s\n    kani::concrete_playback_run(concrete_vals, %s);\n}\n" % (
            rp["replay"]["test"], rp["replay"]["concrete_vals"], rp["harness"])
        insert_tests(ctx, rp["module"], [test])
        res = run_playback(ctx, rp["package"], [rp["replay"]["test"]], "replay")
    finally:
        shutil.rmtree(ctx.scratch, ignore_errors=True)
    rep, panic = res[rp["replay"]["test"]]
    if rep:
        log("replay reproduces on the current tree: %s" % panic)
        log("VIOLATION property=%s replay=%s" % (prop, path))
        return 1
    if rep is False:
        log("replay passes on the current tree (violation not present)")
        return 0
    log(panic)
    return 2


def main(argv):
    import argparse
    ap = argparse.ArgumentParser()
    ap.add_argument("prop")
    ap.add_argument("--tier", default=os.environ.get("VERIF_TIER", "quick"), choices=["quick", "thorough"])
    ap.add_argument("--replay")
    ap.add_argument("--keep", action="store_true", help="keep the scratch directory (debugging)")
    ap.add_argument("--only", action="append", help="run only harnesses whose name contains this (debugging; evidence is partial)")
    ap.add_argument("--jobs", type=int)
    a = ap.parse_args(argv)
    seed = int(os.environ.get("VERIF_SEED", "0") or 0)
    if a.replay:
        return replay_file(a.prop, a.replay)
    return decide(a.prop, a.tier, seed, keep=a.keep, only=a.only, jobs=a.jobs)
